"""Exhaustive per-byte sweeps (DESIGN C04/C07): every generated statement / runtime step
moves at most 8 bits from one source byte to one destination byte, so sweeping every byte
position over all 256 values under the two extreme backgrounds exercises every statement on
its whole input domain."""
from typing import List, Tuple

from . import ref


def background(row, leaves: List[ref.Leaf], bg: int) -> bytearray:
    img = bytearray([bg]) * row["size"]
    for (off, sz), l in zip(row["leaves"], leaves):
        if l.kind == "bool":
            img[off:off + sz] = bytes([bg & 1]) + bytes(sz - 1)
    return img


def storage_sweep(row, leaves: List[ref.Leaf], kinds=("uint", "int", "byte", "enum"), byte_values=range(256)):
    """Yield (image, leaf index, storage byte, value, bg) for every non-bool leaf, every
    storage byte, every byte value, both backgrounds."""
    for bg in (0x00, 0xFF):
        base = background(row, leaves, bg)
        for li, ((off, sz), l) in enumerate(zip(row["leaves"], leaves)):
            if l.kind not in kinds:
                continue
            for p in range(sz):
                for b in byte_values:
                    if b == bg:
                        continue
                    img = bytearray(base)
                    img[off + p] = b
                    yield bytes(img), li, p, b, bg
        yield bytes(base), -1, 0, bg, bg


def image_vec(row, leaves: List[ref.Leaf], img: bytes) -> List[int]:
    """Raw unsigned storage value of every leaf (the reference encoder reduces modulo 2^n)."""
    return [int.from_bytes(img[off:off + sz], "little") for (off, sz), l in zip(row["leaves"], leaves)]


def wire_sweep(nbytes: int):
    for bg in (0x00, 0xFF):
        base = bytearray([bg]) * nbytes
        yield bytes(base), -1, bg, bg
        for p in range(nbytes):
            for b in range(256):
                if b == bg:
                    continue
                w = bytearray(base)
                w[p] = b
                yield bytes(w), p, b, bg
