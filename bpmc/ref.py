"""Reference model (trusted base): sizes, bit layout, encode, decode, JSON value.

Works on the IR only; shares nothing with the implementation.  Deliberately boring.

Specification (docs/language.rst, README, property C01):
  * N = sum of declared widths + 16 per extensible message/array
  * fields in ascending field-number order, no gap
  * a value occupies exactly its width, least-significant bit first
  * extensible message: 16-bit prefix = its own bit size (prefix included)
  * extensible array:   16-bit prefix = its capacity
  * stream bit k is stored in byte k // 8 at bit position k % 8; padding is zero
"""
from dataclasses import dataclass
from typing import Any, List, Optional, Tuple

from .ir import AliasDef, Array, Bool, Byte, EnumDef, Int, MessageDef, Named, Uint


def nbits(t) -> int:
    if isinstance(t, Bool):
        return 1
    if isinstance(t, Byte):
        return 8
    if isinstance(t, (Uint, Int)):
        return t.n
    if isinstance(t, Named):
        return nbits(t.target)
    if isinstance(t, EnumDef):
        return t.width
    if isinstance(t, AliasDef):
        return nbits(t.type)
    if isinstance(t, Array):
        return t.cap * nbits(t.elem) + (16 if t.ext else 0)
    if isinstance(t, MessageDef):
        return sum(nbits(f.type) for f in t.fields()) + (16 if t.ext else 0)
    raise TypeError(t)


def nbytes(t) -> int:
    return (nbits(t) + 7) // 8


@dataclass
class Leaf:
    path: Tuple[Any, ...]  # (('f', name) | ('i', index))*
    offset: int
    width: int
    kind: str  # bool | byte | uint | int | enum | prefix
    signed: bool = False
    enum: Optional[EnumDef] = None
    via_alias: Optional[str] = None
    const: Optional[int] = None  # value of a prefix pseudo-leaf
    numbers: Tuple[int, ...] = ()  # field numbers along the path

    @property
    def is_value(self):
        return self.const is None


def layout(msg: MessageDef) -> List[Leaf]:
    """All leaves of `msg` (prefix pseudo-leaves included) in stream order with offsets."""
    out: List[Leaf] = []
    pos = [0]

    def rec(t, path, numbers, alias=None):
        if isinstance(t, Named):
            d = t.target
            if isinstance(d, AliasDef):
                return rec(d.type, path, numbers, alias=d.name)
            if isinstance(d, EnumDef):
                out.append(Leaf(path, pos[0], d.width, "enum", False, d, alias, None, numbers))
                pos[0] += d.width
                return
            if isinstance(d, MessageDef):
                return rec(d, path, numbers)
            raise TypeError(d)
        if isinstance(t, MessageDef):
            if t.ext:
                out.append(Leaf(path + (("prefix", "msg"),), pos[0], 16, "prefix", False, None, None, nbits(t), numbers))
                pos[0] += 16
            for f in t.sorted_fields():
                rec(f.type, path + (("f", f.name),), numbers + (f.number,))
            return
        if isinstance(t, Array):
            if t.ext:
                out.append(Leaf(path + (("prefix", "arr"),), pos[0], 16, "prefix", False, None, None, t.cap, numbers))
                pos[0] += 16
            for k in range(t.cap):
                rec(t.elem, path + (("i", k),), numbers, alias)
            return
        if isinstance(t, Bool):
            out.append(Leaf(path, pos[0], 1, "bool", False, None, alias, None, numbers))
        elif isinstance(t, Byte):
            out.append(Leaf(path, pos[0], 8, "byte", False, None, alias, None, numbers))
        elif isinstance(t, Uint):
            out.append(Leaf(path, pos[0], t.n, "uint", False, None, alias, None, numbers))
        elif isinstance(t, Int):
            out.append(Leaf(path, pos[0], t.n, "int", True, None, alias, None, numbers))
        else:
            raise TypeError(t)
        pos[0] += out[-1].width

    rec(msg, (), ())
    assert pos[0] == nbits(msg), (pos[0], nbits(msg))
    return out


def value_leaves(msg: MessageDef) -> List[Leaf]:
    return [l for l in layout(msg) if l.is_value]


def put_bits(buf: bytearray, offset: int, width: int, value: int):
    value &= (1 << width) - 1
    for k in range(width):
        if (value >> k) & 1:
            p = offset + k
            buf[p // 8] |= 1 << (p % 8)


def get_bits(buf, offset: int, width: int) -> int:
    v = 0
    for k in range(width):
        p = offset + k
        if (buf[p // 8] >> (p % 8)) & 1:
            v |= 1 << k
    return v


def encode(msg: MessageDef, vec: List[int], lay: Optional[List[Leaf]] = None) -> bytes:
    """vec: one integer per *value* leaf in stream order (negative allowed for signed)."""
    lay = lay if lay is not None else layout(msg)
    buf = bytearray(nbytes(msg))
    it = iter(vec)
    for l in lay:
        v = l.const if l.const is not None else next(it)
        # fast path: aligned chunks through Python int arithmetic
        v &= (1 << l.width) - 1
        if v:
            o = l.offset
            whole = v << (o % 8)
            b = o // 8
            while whole:
                buf[b] |= whole & 0xFF
                whole >>= 8
                b += 1
    return bytes(buf)


def to_signed(v: int, width: int) -> int:
    v &= (1 << width) - 1
    return v - (1 << width) if v >> (width - 1) else v


def decode_same(msg: MessageDef, data: bytes, lay: Optional[List[Leaf]] = None) -> List[int]:
    """Decode bytes produced by the *same* schema: plain inverse of encode."""
    lay = lay if lay is not None else layout(msg)
    big = int.from_bytes(data, "little")
    out = []
    for l in lay:
        if l.const is not None:
            continue
        v = (big >> l.offset) & ((1 << l.width) - 1)
        out.append(to_signed(v, l.width) if l.signed else v)
    return out


def decode_dynamic(msg: MessageDef, data: bytes) -> List[int]:
    """Decode honouring the announced sizes (forward compatibility, C05).

    extensible message : next position = start + announced bit size (prefix included)
    extensible array   : next position = elements start + announced capacity x the size one
                         element occupied on the wire
    Returns one value per value leaf of `msg` in stream order.
    """
    big = int.from_bytes(data, "little")
    out: List[int] = []

    def rd(pos, w):
        return (big >> pos) & ((1 << w) - 1)

    def rec(t, pos) -> int:
        if isinstance(t, Named):
            d = t.target
            if isinstance(d, AliasDef):
                return rec(d.type, pos)
            if isinstance(d, EnumDef):
                out.append(rd(pos, d.width))
                return pos + d.width
            return rec(d, pos)
        if isinstance(t, MessageDef):
            start = pos
            ahead = None
            if t.ext:
                ahead = rd(pos, 16)
                pos += 16
            for f in t.sorted_fields():
                pos = rec(f.type, pos)
            if ahead is not None and start + ahead >= pos:
                pos = start + ahead
            return pos
        if isinstance(t, Array):
            ahead = None
            if t.ext:
                ahead = rd(pos, 16)
                pos += 16
            estart = pos
            for _ in range(t.cap):
                pos = rec(t.elem, pos)
            if ahead is not None and ahead >= t.cap:
                per = (pos - estart) // t.cap
                pos = estart + ahead * per
            return pos
        w = nbits(t)
        v = rd(pos, w)
        out.append(to_signed(v, w) if isinstance(t, Int) else v)
        return pos + w

    rec(msg, 0)
    return out


# ------------------------------------------------------------------ value tree / JSON value
class MsgTree(list):
    """A message's ordered (name, subtree) pairs (distinguishes an empty message from a list)."""


def tree(msg: MessageDef, vec: List[int]):
    """Ordered value tree: message -> list of (field name, subtree) in field-number order,
    array -> list, bool -> True/False, everything else -> int."""
    it = iter(vec)

    def rec(t):
        if isinstance(t, Named):
            d = t.target
            if isinstance(d, AliasDef):
                return rec(d.type)
            if isinstance(d, EnumDef):
                return int(next(it))
            return rec(d)
        if isinstance(t, MessageDef):
            return MsgTree((f.name, rec(f.type)) for f in t.sorted_fields())
        if isinstance(t, Array):
            return [rec(t.elem) for _ in range(t.cap)]
        if isinstance(t, Bool):
            return bool(next(it))
        return int(next(it))

    r = rec(msg)
    return r


def tree_to_plain(tr):
    """Ordered tree -> dict/list/int structure (what json.loads without hooks returns)."""
    if isinstance(tr, MsgTree):
        return {k: tree_to_plain(v) for k, v in tr}
    if isinstance(tr, list):
        return [tree_to_plain(v) for v in tr]
    return tr


def in_range(l: Leaf, v: int) -> bool:
    if l.signed:
        return -(1 << (l.width - 1)) <= v < (1 << (l.width - 1))
    return 0 <= v < (1 << l.width)
