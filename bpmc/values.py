"""Value spaces over the value leaves of a message: EXH (all assignments) and BASIS."""
import itertools
from typing import List

from .ref import Leaf


def leaf_domain_size(l: Leaf) -> int:
    if l.kind == "enum":
        return max(1, len(l.enum.members))
    return 1 << l.width


def leaf_domain(l: Leaf):
    if l.kind == "enum":
        return [v for _, v in l.enum.members]
    if l.signed:
        return range(-(1 << (l.width - 1)), 1 << (l.width - 1))
    return range(1 << l.width)


def zero_of(l: Leaf) -> int:
    if l.kind == "enum":
        vals = [v for _, v in l.enum.members]
        return 0 if 0 in vals else vals[0]
    return 0


def ones_of(l: Leaf) -> int:
    if l.kind == "enum":
        vals = [v for _, v in l.enum.members]
        return max(vals, key=lambda v: (bin(v).count("1"), v))
    if l.signed:
        return -1
    return (1 << l.width) - 1


def with_bit(l: Leaf, k: int):
    """A legal value of leaf l that has bit k set and, if possible, only bit k."""
    if l.kind == "enum":
        vals = [v for _, v in l.enum.members]
        if (1 << k) in vals:
            return 1 << k
        c = [v for v in vals if (v >> k) & 1]
        return min(c, key=lambda v: bin(v).count("1")) if c else None
    if l.signed and k == l.width - 1:
        return -(1 << k)
    return 1 << k


def without_bit(l: Leaf, k: int):
    """A legal value of leaf l with bit k clear and, if possible, every other bit set."""
    full = (1 << l.width) - 1
    pat = full & ~(1 << k)
    if l.kind == "enum":
        vals = [v for _, v in l.enum.members]
        if pat in vals:
            return pat
        c = [v for v in vals if not (v >> k) & 1]
        return max(c, key=lambda v: bin(v).count("1")) if c else None
    if l.signed:
        return pat - (1 << l.width) if (pat >> (l.width - 1)) & 1 else pat
    return pat


def has_enum_without_members(leaves: List[Leaf]) -> bool:
    return any(l.kind == "enum" and not l.enum.members for l in leaves)


def space_size(leaves: List[Leaf]) -> int:
    n = 1
    for l in leaves:
        n *= leaf_domain_size(l)
        if n > 1 << 40:
            return n
    return n


def exhaustive(leaves: List[Leaf]):
    return [list(v) for v in itertools.product(*[leaf_domain(l) for l in leaves])]


def basis(leaves: List[Leaf], walk_limit: int = 100000):
    """Complete bit basis: zero, ones, walking one / walking zero over every bit of every
    leaf, signed extremes, every enum member.  De-duplicated, order simplest first."""
    if not leaves:
        return [[]]
    zeros = [zero_of(l) for l in leaves]
    ones = [ones_of(l) for l in leaves]
    out, seen = [], set()

    def add(v):
        t = tuple(v)
        if t not in seen:
            seen.add(t)
            out.append(list(v))

    add(zeros)
    add(ones)
    for i, l in enumerate(leaves):
        for k in range(l.width):
            b = with_bit(l, k)
            if b is not None:
                v = list(zeros)
                v[i] = b
                add(v)
    for i, l in enumerate(leaves):
        for k in range(l.width):
            b = without_bit(l, k)
            if b is not None:
                v = list(ones)
                v[i] = b
                add(v)
    for i, l in enumerate(leaves):
        if l.signed:
            lo, hi = -(1 << (l.width - 1)), (1 << (l.width - 1)) - 1
            for x in (lo, -1, hi, 1) if l.width > 1 else (lo, 0):
                for bg in (zeros, ones):
                    v = list(bg)
                    v[i] = x
                    add(v)
        if l.kind == "enum":
            for _, mv in l.enum.members:
                for bg in (zeros, ones):
                    v = list(bg)
                    v[i] = mv
                    add(v)
    # alternating patterns (adjacent-bit interactions)
    for pat in (0x5555555555555555, 0xAAAAAAAAAAAAAAAA):
        v = []
        ok = True
        for l in leaves:
            x = pat & ((1 << l.width) - 1)
            if l.kind == "enum":
                vals = [m for _, m in l.enum.members]
                x = x if x in vals else zero_of(l)
            elif l.signed and (x >> (l.width - 1)) & 1:
                x -= 1 << l.width
            v.append(x)
        add(v)
    return out


def value_space(leaves: List[Leaf], vmax_bits: int):
    """EXH when the space has at most 2**vmax_bits points, BASIS otherwise.
    Returns (mode, vectors)."""
    if has_enum_without_members(leaves):
        return "NONE", []
    n = space_size(leaves)
    if n <= (1 << vmax_bits):
        return "EXH", exhaustive(leaves)
    return "BASIS", basis(leaves)


def big_vectors(leaves: List[Leaf]):
    """Value vectors for messages with thousands of leaves (a basis would be quadratic): zero, ones, leaf k holds k,
    leaf k holds k * 2654435761 (every bit position varies along the array), alternating bits, only the last leaf non-zero.
    Deterministic patterns, reduced to each leaf's domain."""
    def fit(l, x):
        x &= (1 << l.width) - 1
        if l.kind == "enum":
            vals = [m for _, m in l.enum.members]
            return x if x in vals else zero_of(l)
        if l.kind == "bool":
            return x & 1
        if l.signed and (x >> (l.width - 1)) & 1:
            x -= 1 << l.width
        return x
    zeros = [zero_of(l) for l in leaves]
    last = list(zeros)
    if leaves:
        last[-1] = ones_of(leaves[-1])
    return [zeros, [ones_of(l) for l in leaves], [fit(l, k) for k, l in enumerate(leaves)],
            [fit(l, (k + 1) * 2654435761) for k, l in enumerate(leaves)], [fit(l, 0x5555555555555555 if k % 2 else 0xAAAAAAAAAAAAAAAA) for k, l in enumerate(leaves)], last]
