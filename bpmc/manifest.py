"""Regenerates /verif/MANIFEST.json from the check registry (run: python -m bpmc.manifest)."""
import json
import os

from .run import REGISTRY

ROOT = os.path.dirname(os.path.dirname(os.path.abspath(__file__)))
PY = "/venv/bin/python"

LEVEL = {
    "C01": ("Every schema of the bounded scopes SING u COMB(2) u TREE(n) (canonical de-dup) is compiled by the real compiler and "
            "its generated Python encoder is executed on the whole value space (exhaustive when small, complete bit basis otherwise) "
            "and on bounded object histories; every result is compared with an independent bit-level reference encoder.",
            "4 C01", "explicit-state bounded-exhaustive exploration of schemas x values x object histories on the real code vs reference encoder"),
    "C02": ("Same exploration as C01 with the decoder: decode(reference bytes) and decode(encode(v)) must give v leaf by leaf, "
            "re-encode must reproduce the bytes, nothing may raise; histories include first-use decode and decode into later instances.",
            "4 C02", "explicit-state bounded-exhaustive exploration; round-trip and reference-bytes oracle"),
}

LEVEL.update({
    "C03": ("Same schema space as C01/C02; generated C (standard mode) + lib/c is built from the working tree in several configurations "
            "(gcc -O0..-O3, separate and single translation unit) and every (state, value) is encoded/decoded in a stand-alone harness with "
            "struct and wire buffers flush against PROT_NONE pages; oracle: reference bytes / leaf values on the full storage, plus the Python peer.",
            "4 C03", "explicit-state bounded-exhaustive exploration of schemas x values x build configurations on compiled code vs reference"),
    "C04": ("Every traditional state is built five times (standard mode; -O with --endian little/big/both and both with -DBP_BIG_ENDIAN); "
            "inputs are the EXH/BASIS values plus exhaustive per-byte sweeps (every value of every storage byte / wire byte under two backgrounds), "
            "which exercise every generated statement on its whole input domain; oracle: -O == standard == reference.  The Go -O statements are "
            "interpreted by bpmc/gofront when available (see evidence go_part).",
            "4 C04", "bounded-exhaustive exploration with exhaustive per-byte sweeps; differential oracle std vs -O vs reference"),
    "C05": ("Breadth-first search over schema-evolution events (append field to an extensible message node, grow an extensible array node) from a "
            "root alphabet, canonical de-duplication; every ancestor/descendant pair on a path x every BASIS value of the descendant is decoded by "
            "the ancestor's real Python and C decoders.", "4 C05", "BFS over version chains; old decoder vs encoded values"),
    "C06": ("(a) complete (kind,width,offset) space by direct calls into a -DBP_BIG_ENDIAN build fed byte-reversed storage vs the default build; "
            "(b) whole traditional messages on the emulated big-endian build; (c) -O big-endian branch vs little-endian branch with exhaustive byte "
            "sweeps; (d) all 2^5 x 2 host-detection macro combinations.", "4 C06", "exhaustive enumeration of the finite space + bounded schema exploration; LE/BE differential oracle"),
    "C07": ("(a) byte-length constants of C/Go/Python vs ceil(N/8) on every state; (b) every ENC/DEC inside guard pages at both ends and under "
            "ASan+UBSan; (c) containment: exhaustive storage sweeps on standard and -O builds, Python out-of-range integers.",
            "4 C07", "bounded-exhaustive exploration with guard pages / sanitizers and exhaustive per-byte sweeps"),
    "C12": ("BFS over sequences of the nine listed rewrites (each at every applicable site) from a set of roots, canonical de-duplication; "
            "invariant on every state: generated Python (and C on a fixed sub-scope) encodes every BASIS value of the root to the root's bytes.",
            "4 C12", "BFS over rewrite histories; invariant = bytes equal to the root's"),
    "C14": ("The space in the statement is finite and enumerated completely: all kinds x offsets x positions x basis values through generated "
            "Python, generated C (standard and -O builds), direct C runtime calls on LE builds and the emulated BE build, and the raw bit copier "
            "for every (n, di, si).", "4 C14", "complete enumeration of a finite space on the real code vs reference"),
    "C16": ("Every state of SING u COMB u TREE x BASIS values: Python to_json()/to_dict() and the generated C Json function are executed and "
            "their output parsed with json.loads and compared strictly (key order, types, sign) with the reference value tree.",
            "4 C16", "bounded-exhaustive exploration; JSON parse + strict structural comparison"),
})

LEVEL.update({
    "C08": ("A skeleton schema (nesting depth 3, enums, aliases, constants, imports) x one snippet from a catalogue of ~150 constraint violations and "
            "boundary-valid constructs (both sides of every numeric limit) x every slot of the snippet's scope kind x line shifts, parsed by the real "
            "compiler; per family real CLI subprocesses.  Verdict, error class, file and line are checked.", "4 C08",
            "exhaustive enumeration of (catalogue entry x position x shift) on the real parser/CLI"),
    "C09": ("All single-token edits of seeds covering every grammar production (delete/replace by each vocabulary item/insert/swap), all truncations and "
            "byte deletions, all <=k-token fragments in 9 grammar contexts, import environment answers; every accepted input rendered by every renderer; "
            "oracle: result type and a watchdog.", "4 C09", "exhaustive bounded mutation/fragment enumeration on the real parser and renderers"),
    "C10": ("Base schema x all combinations of <=k of ~38 non-default features x {c, c -O, c -O -F, py, go, go -O}; oracles are the toolchains (gcc, g++, "
            "C/C++ layout probe, CPython import+instantiate) and static Go rules of bpmc/gofront.", "4 C10",
            "exhaustive feature-combination enumeration; toolchains as oracle"),
    "C11": ("Scope skeleton file>A>B>C + imported files: all 3^4 declaration-site combinations x use scopes for a simple name, dotted paths, an import "
            "name shadowed by a nested message, constants; each declaration has a distinct width; oracle: independent resolver.", "4 C11",
            "exhaustive enumeration of shadowing patterns vs an independent resolver"),
    "C13": ("All constant expressions with <=k operators over a literal alphabet (every operator choice and parenthesisation, references to earlier and "
            "imported constants), all strings of length <=n over the lexer alphabet, booleans; values read back from the parsed schema and from the "
            "emitted C (compiled), Python (imported) and Go (lexed) literals.", "4 C13",
            "exhaustive bounded enumeration of expressions/strings vs an independent evaluator"),
    "C15": ("4 skeletons x all permutations of the style-guide words over the message roles x c.name_prefix in {none, my_prefix_, ab_} x {c, c -O, py, go, "
            "go -O}; names observed from generated text, nm, the imported module, gofront; oracle: independent implementation of the documented scheme; "
            "prefix-erasure diff.", "4 C15", "exhaustive enumeration of a style-guide-named schema space vs an independent naming model"),
    "C17": ("One schema family x extensible marker at 7 positions x {c, go, py} x -O on/off x -F over all subsets of message names (+unknown) x --endian x "
            "-q: refusal table and textual identity of the selected functions / remaining declarations with the unfiltered output; subprocess classes.",
            "4 C17", "exhaustive enumeration of CLI configurations"),
    "C18": ("Every sequence of length <=k over a 12-event alphabet of compile/parse/lint operations executed in ONE process (fork() snapshots the process "
            "state after each prefix, so all 12+144+1728 histories are real executions), outputs compared with fresh-process goldens; plus a "
            "fresh-process matrix over PYTHONHASHSEED x cwd x path form x outdir x -q.", "4 C18",
            "exhaustive exploration of in-process operation histories (fork-snapshot DFS) vs fresh-process goldens"),
    "C19": ("Single-file states of SING u COMB u TREE: generated Go standard-mode text parsed by bpmc/gofront and compared structurally with the "
            "reference layout and with the generated Python's processor tree; accessor case tables; Go runtime helpers interpreted on their whole "
            "domain vs lib/py.", "4 C19", "bounded-exhaustive structural comparison; whole-domain evaluation of helper functions"),
    "C20": ("Style-guide roots x print styles (line shifts, CRLF, indentation) x comment lines x every single name perturbation; every C08 violation at "
            "line shifts; oracle: the printer's source map for lines/columns, expected warning classes, -c exit status.", "4 C20",
            "exhaustive enumeration of style/perturbation variants vs the printer's source map"),
})

NOT_YET = {}


def build():
    checks = []
    for pid in sorted(REGISTRY):
        text, ref_, tech = LEVEL[pid]
        checks.append(dict(
            property_id=pid,
            quick_cmd="%s -m bpmc.run %s --tier quick" % (PY, pid),
            thorough_cmd="%s -m bpmc.run %s --tier thorough" % (PY, pid),
            evidence_file="/verif/evidence/%s.json" % pid,
            replay_cmd_template="%s -m bpmc.run %s --replay {path}" % (PY, pid),
            engine="bpmc",
            level_claimed=dict(category="model_checking", text=text, design_ref="DESIGN.md section " + ref_),
            level_note="Trusted base: bpmc/ref.py (anchored by `python -m bpmc.setup` against the documentation's worked examples and "
                       "gcc packed bit-field structs), the IR printer, gcc/clang/CPython. Bounded: see evidence `bound`.",
            technique=tech,
        ))
    props = [json.loads(l)["id"] for l in open(os.path.join(ROOT, "properties.jsonl"))]
    na = [dict(property_id=p, reason=NOT_YET.get(p, "check not built yet in this round (planned: DESIGN.md section 4); no claim is made"))
          for p in props if p not in REGISTRY]
    man = dict(
        version=1,
        setup_cmd="%s -m bpmc.setup" % PY,
        hooks=dict(
            guard="HIT9_BITPROTO_VERIF",
            enable="no hook is needed: every observation point is reachable from outside (return values, generated text, compiled objects, exit status); checks import /repo/compiler and /repo/lib/py directly",
            baseline_off_cmd="cd /repo && PYTHONPATH=/repo/compiler /venv/bin/python -m pytest -ra -q -p no:cacheprovider --timeout=900 --continue-on-collection-errors",
            source_commits=[],
            add_only=True,
        ),
        engines=[dict(name="bpmc", path="/verif/bpmc", serves_properties=sorted(REGISTRY),
                      kind_free_text="hand-written explicit-state / bounded-exhaustive explorer running the real compiler, generated code and runtimes on every state")],
        checks=checks,
        not_applicable=na,
        notes="cwd=/verif; VERIF_SEED only permutes shard dispatch order; exit 2 = infrastructure error (never expected on the unchanged tree).",
    )
    with open(os.path.join(ROOT, "MANIFEST.json"), "w") as f:
        json.dump(man, f, indent=1)
    return man


if __name__ == "__main__":
    m = build()
    print("MANIFEST.json written: %d checks, %d not_applicable" % (len(m["checks"]), len(m["not_applicable"])))
