"""Regenerates /verif/MANIFEST.json from the check registry (run: python -m bpmc.manifest)."""
import json
import os

from .run import REGISTRY

ROOT = os.path.dirname(os.path.dirname(os.path.abspath(__file__)))
PY = "/venv/bin/python"

LEVEL = {
    "C01": ("Every schema of the bounded scopes SING u COMB(2) u TREE(n) (canonical de-dup) is compiled by the real compiler and "
            "its generated Python encoder is executed on the whole value space (exhaustive when small, complete bit basis otherwise) "
            "and on bounded object histories; every result is compared with an independent bit-level reference encoder.",
            "4 C01", "explicit-state bounded-exhaustive exploration of schemas x values x object histories on the real code vs reference encoder"),
    "C02": ("Same exploration as C01 with the decoder: decode(reference bytes) and decode(encode(v)) must give v leaf by leaf, "
            "re-encode must reproduce the bytes, nothing may raise; histories include first-use decode and decode into later instances.",
            "4 C02", "explicit-state bounded-exhaustive exploration; round-trip and reference-bytes oracle"),
}

NOT_YET = {}


def build():
    checks = []
    for pid in sorted(REGISTRY):
        text, ref_, tech = LEVEL[pid]
        checks.append(dict(
            property_id=pid,
            quick_cmd="%s -m bpmc.run %s --tier quick" % (PY, pid),
            thorough_cmd="%s -m bpmc.run %s --tier thorough" % (PY, pid),
            evidence_file="/verif/evidence/%s.json" % pid,
            replay_cmd_template="%s -m bpmc.run %s --replay {path}" % (PY, pid),
            engine="bpmc",
            level_claimed=dict(category="model_checking", text=text, design_ref="DESIGN.md section " + ref_),
            level_note="Trusted base: bpmc/ref.py (anchored by `python -m bpmc.setup` against the documentation's worked examples and "
                       "gcc packed bit-field structs), the IR printer, gcc/clang/CPython. Bounded: see evidence `bound`.",
            technique=tech,
        ))
    props = [json.loads(l)["id"] for l in open(os.path.join(ROOT, "properties.jsonl"))]
    na = [dict(property_id=p, reason=NOT_YET.get(p, "check not built yet in this round (planned: DESIGN.md section 4); no claim is made"))
          for p in props if p not in REGISTRY]
    man = dict(
        version=1,
        setup_cmd="%s -m bpmc.setup" % PY,
        hooks=dict(
            guard="HIT9_BITPROTO_VERIF",
            enable="no hook is needed: every observation point is reachable from outside (return values, generated text, compiled objects, exit status); checks import /repo/compiler and /repo/lib/py directly",
            baseline_off_cmd="cd /repo && PYTHONPATH=/repo/compiler /venv/bin/python -m pytest -ra -q -p no:cacheprovider --timeout=900 --continue-on-collection-errors",
            source_commits=[],
            add_only=True,
        ),
        engines=[dict(name="bpmc", path="/verif/bpmc", serves_properties=sorted(REGISTRY),
                      kind_free_text="hand-written explicit-state / bounded-exhaustive explorer running the real compiler, generated code and runtimes on every state")],
        checks=checks,
        not_applicable=na,
        notes="cwd=/verif; VERIF_SEED only permutes shard dispatch order; exit 2 = infrastructure error (never expected on the unchanged tree).",
    )
    with open(os.path.join(ROOT, "MANIFEST.json"), "w") as f:
        json.dump(man, f, indent=1)
    return man


if __name__ == "__main__":
    m = build()
    print("MANIFEST.json written: %d checks, %d not_applicable" % (len(m["checks"]), len(m["not_applicable"])))
