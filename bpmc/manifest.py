"""Regenerates /verif/MANIFEST.json from the check registry (run: python -m bpmc.manifest)."""
import json
import os

from .run import REGISTRY

ROOT = os.path.dirname(os.path.dirname(os.path.abspath(__file__)))
PY = "/venv/bin/python"

LEVEL = {
    "C01": ("Every schema of the bounded scopes SING u COMB(2) u TREE(n) (canonical de-dup) is compiled by the real compiler and "
            "its generated Python encoder is executed on the whole value space (exhaustive when small, complete bit basis otherwise) "
            "and on bounded object histories; every result is compared with an independent bit-level reference encoder.",
            "4 C01", "explicit-state bounded-exhaustive exploration of schemas x values x object histories on the real code vs reference encoder"),
    "C02": ("Same exploration as C01 with the decoder: decode(reference bytes) and decode(encode(v)) must give v leaf by leaf, "
            "re-encode must reproduce the bytes, nothing may raise; histories include first-use decode and decode into later instances.",
            "4 C02", "explicit-state bounded-exhaustive exploration; round-trip and reference-bytes oracle"),
}

LEVEL.update({
    "C03": ("Same schema space as C01/C02; generated C (standard mode) + lib/c is built from the working tree in several configurations "
            "(gcc -O0..-O3, separate and single translation unit) and every (state, value) is encoded/decoded in a stand-alone harness with "
            "struct and wire buffers flush against PROT_NONE pages; oracle: reference bytes / leaf values on the full storage, plus the Python peer.",
            "4 C03", "explicit-state bounded-exhaustive exploration of schemas x values x build configurations on compiled code vs reference"),
    "C04": ("Every traditional state is built five times (standard mode; -O with --endian little/big/both and both with -DBP_BIG_ENDIAN); "
            "inputs are the EXH/BASIS values plus exhaustive per-byte sweeps (every value of every storage byte / wire byte under two backgrounds), "
            "which exercise every generated statement on its whole input domain; oracle: -O == standard == reference.  The Go -O statements are "
            "interpreted by bpmc/gofront when available (see evidence go_part).",
            "4 C04", "bounded-exhaustive exploration with exhaustive per-byte sweeps; differential oracle std vs -O vs reference"),
    "C05": ("Breadth-first search over schema-evolution events (append field to an extensible message node, grow an extensible array node) from a "
            "root alphabet, canonical de-duplication; every ancestor/descendant pair on a path x every BASIS value of the descendant is decoded by "
            "the ancestor's real Python and C decoders.", "4 C05", "BFS over version chains; old decoder vs encoded values"),
    "C06": ("(a) complete (kind,width,offset) space by direct calls into a -DBP_BIG_ENDIAN build fed byte-reversed storage vs the default build; "
            "(b) whole traditional messages on the emulated big-endian build; (c) -O big-endian branch vs little-endian branch with exhaustive byte "
            "sweeps; (d) all 2^5 x 2 host-detection macro combinations.", "4 C06", "exhaustive enumeration of the finite space + bounded schema exploration; LE/BE differential oracle"),
    "C07": ("(a) byte-length constants of C/Go/Python vs ceil(N/8) on every state; (b) every ENC/DEC inside guard pages at both ends and under "
            "ASan+UBSan; (c) containment: exhaustive storage sweeps on standard and -O builds, Python out-of-range integers.",
            "4 C07", "bounded-exhaustive exploration with guard pages / sanitizers and exhaustive per-byte sweeps"),
    "C12": ("BFS over sequences of the nine listed rewrites (each at every applicable site) from a set of roots, canonical de-duplication; "
            "invariant on every state: generated Python (and C on a fixed sub-scope) encodes every BASIS value of the root to the root's bytes.",
            "4 C12", "BFS over rewrite histories; invariant = bytes equal to the root's"),
    "C14": ("The space in the statement is finite and enumerated completely: all kinds x offsets x positions x basis values through generated "
            "Python, generated C (standard and -O builds), direct C runtime calls on LE builds and the emulated BE build, and the raw bit copier "
            "for every (n, di, si).", "4 C14", "complete enumeration of a finite space on the real code vs reference"),
    "C16": ("Every state of SING u COMB u TREE x BASIS values: Python to_json()/to_dict() and the generated C Json function are executed and "
            "their output parsed with json.loads and compared strictly (key order, types, sign) with the reference value tree.",
            "4 C16", "bounded-exhaustive exploration; JSON parse + strict structural comparison"),
})

NOT_YET = {}


def build():
    checks = []
    for pid in sorted(REGISTRY):
        text, ref_, tech = LEVEL[pid]
        checks.append(dict(
            property_id=pid,
            quick_cmd="%s -m bpmc.run %s --tier quick" % (PY, pid),
            thorough_cmd="%s -m bpmc.run %s --tier thorough" % (PY, pid),
            evidence_file="/verif/evidence/%s.json" % pid,
            replay_cmd_template="%s -m bpmc.run %s --replay {path}" % (PY, pid),
            engine="bpmc",
            level_claimed=dict(category="model_checking", text=text, design_ref="DESIGN.md section " + ref_),
            level_note="Trusted base: bpmc/ref.py (anchored by `python -m bpmc.setup` against the documentation's worked examples and "
                       "gcc packed bit-field structs), the IR printer, gcc/clang/CPython. Bounded: see evidence `bound`.",
            technique=tech,
        ))
    props = [json.loads(l)["id"] for l in open(os.path.join(ROOT, "properties.jsonl"))]
    na = [dict(property_id=p, reason=NOT_YET.get(p, "check not built yet in this round (planned: DESIGN.md section 4); no claim is made"))
          for p in props if p not in REGISTRY]
    man = dict(
        version=1,
        setup_cmd="%s -m bpmc.setup" % PY,
        hooks=dict(
            guard="HIT9_BITPROTO_VERIF",
            enable="no hook is needed: every observation point is reachable from outside (return values, generated text, compiled objects, exit status); checks import /repo/compiler and /repo/lib/py directly",
            baseline_off_cmd="cd /repo && PYTHONPATH=/repo/compiler /venv/bin/python -m pytest -ra -q -p no:cacheprovider --timeout=900 --continue-on-collection-errors",
            source_commits=[],
            add_only=True,
        ),
        engines=[dict(name="bpmc", path="/verif/bpmc", serves_properties=sorted(REGISTRY),
                      kind_free_text="hand-written explicit-state / bounded-exhaustive explorer running the real compiler, generated code and runtimes on every state")],
        checks=checks,
        not_applicable=na,
        notes="cwd=/verif; VERIF_SEED only permutes shard dispatch order; exit 2 = infrastructure error (never expected on the unchanged tree).",
    )
    with open(os.path.join(ROOT, "MANIFEST.json"), "w") as f:
        json.dump(man, f, indent=1)
    return man


if __name__ == "__main__":
    m = build()
    print("MANIFEST.json written: %d checks, %d not_applicable" % (len(m["checks"]), len(m["not_applicable"])))
