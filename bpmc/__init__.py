"""bpmc - bounded-exhaustive (explicit-state) exploration of hit9/bitproto."""
