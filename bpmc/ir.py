"""Schema IR (independent of the compiler's AST) and a total pretty-printer with source map.

The IR is a tree of frozen dataclasses; a reference to a named definition (`Named`) carries
the *resolved* target definition together with the text that is written in the schema, so the
reference model never has to resolve names (except in the C11 check, which has its own
resolver).
"""
import re
from dataclasses import dataclass, field, replace
from typing import Any, Dict, List, Optional, Tuple, Union


# ----------------------------------------------------------------------------------- types
@dataclass(frozen=True)
class Bool:
    pass


@dataclass(frozen=True)
class Byte:
    pass


@dataclass(frozen=True)
class Uint:
    n: int


@dataclass(frozen=True)
class Int:
    n: int


@dataclass(frozen=True)
class Named:
    target: Any  # EnumDef | MessageDef | AliasDef
    path: str  # text written in the schema, e.g. "Color", "lp.Color", "Outer.Inner"


@dataclass(frozen=True)
class Array:
    elem: Any
    cap: int
    ext: bool = False
    cap_text: Optional[str] = None  # e.g. a constant name / expression-free literal spelling


# ----------------------------------------------------------------------------- definitions
@dataclass(frozen=True)
class EnumDef:
    name: str
    width: int
    members: Tuple[Tuple[str, int], ...]
    comments: Tuple[str, ...] = ()


@dataclass(frozen=True)
class AliasDef:
    name: str
    type: Any
    typedef_style: bool = False
    comments: Tuple[str, ...] = ()


@dataclass(frozen=True)
class Field:
    type: Any
    name: str
    number: int
    comments: Tuple[str, ...] = ()


@dataclass(frozen=True)
class MessageDef:
    name: str
    ext: bool
    items: Tuple[Any, ...]  # Field | EnumDef | MessageDef | OptionDef | Raw
    comments: Tuple[str, ...] = ()

    def fields(self):
        return [i for i in self.items if isinstance(i, Field)]

    def sorted_fields(self):
        return sorted(self.fields(), key=lambda f: f.number)


@dataclass(frozen=True)
class ConstDef:
    name: str
    value: Any  # int | bool | str  (the value the expression denotes)
    text: Optional[str] = None  # right-hand side exactly as written
    comments: Tuple[str, ...] = ()


@dataclass(frozen=True)
class OptionDef:
    name: str
    value: Any
    text: Optional[str] = None


@dataclass(frozen=True)
class Raw:
    """Raw source lines placed verbatim at the current indentation (violation injection)."""

    text: str
    tag: str = ""


@dataclass(frozen=True)
class ProtoFile:
    name: str  # proto name
    stem: str  # file name without extension
    imports: Tuple[Tuple[Optional[str], "ProtoFile"], ...] = ()
    items: Tuple[Any, ...] = ()
    comments: Tuple[str, ...] = ()

    @property
    def filename(self):
        return self.stem + ".bitproto"

    def all_files(self):
        """This file and all transitively imported files (each once, dependency first)."""
        out, seen = [], set()

        def rec(p):
            for _, c in p.imports:
                rec(c)
            if p.stem not in seen:
                seen.add(p.stem)
                out.append(p)

        rec(self)
        return out


@dataclass(frozen=True)
class Style:
    indent: str = "    "
    semicolon: str = "none"  # none | all | mixed
    blank_between: int = 1
    crlf: bool = False
    one_line_empty: bool = True
    pre_blank: int = 0  # blank lines at the very top of the file
    trailing_newline: bool = True
    trailing_comments: bool = False  # `// t` after every field / member / constant / alias on the same line
    escaped_strings: bool = False  # a string constant full of escape sequences (\n, \t, \", \\) right after the proto statement of every file


DEFAULT_STYLE = Style()


def type_text(t) -> str:
    if isinstance(t, Bool):
        return "bool"
    if isinstance(t, Byte):
        return "byte"
    if isinstance(t, Uint):
        return "uint%d" % t.n
    if isinstance(t, Int):
        return "int%d" % t.n
    if isinstance(t, Named):
        return t.path
    if isinstance(t, Array):
        cap = t.cap_text if t.cap_text is not None else str(t.cap)
        return "%s[%s]%s" % (type_text(t.elem), cap, "'" if t.ext else "")
    raise TypeError(t)


def value_text(v) -> str:
    if v is True:
        return "true"
    if v is False:
        return "false"
    if isinstance(v, int):
        return str(v)
    if isinstance(v, str):
        out = ['"']
        for ch in v:
            if ch == "\\":
                out.append("\\\\")
            elif ch == '"':
                out.append('\\"')
            elif ch == "\n":
                out.append("\\n")
            elif ch == "\r":
                out.append("\\r")
            elif ch == "\t":
                out.append("\\t")
            else:
                out.append(ch)
        out.append('"')
        return "".join(out)
    raise TypeError(v)


class SourceMap:
    """(file, scope-path, kind) -> line / 1-based column of the *name token*."""

    def __init__(self):
        self.defs: Dict[Tuple[str, ...], Dict[str, Any]] = {}
        self.refs: List[Dict[str, Any]] = []
        self.raws: List[Dict[str, Any]] = []

    def add_def(self, path, kind, line, col, token, file):
        self.defs[tuple(path)] = dict(kind=kind, line=line, col=col, token=token, file=file)

    def add_ref(self, token, line, col, file, kind):
        self.refs.append(dict(token=token, line=line, col=col, file=file, kind=kind))


class Printer:
    def __init__(self, proto: ProtoFile, style: Style = DEFAULT_STYLE, srcmap: Optional[SourceMap] = None):
        self.proto = proto
        self.style = style
        self.lines: List[str] = []
        self.map = srcmap if srcmap is not None else SourceMap()
        self._semi_toggle = False
        self.file = proto.filename

    # -- helpers
    def semi(self) -> str:
        s = self.style.semicolon
        if s == "all":
            return ";"
        if s == "mixed":
            self._semi_toggle = not self._semi_toggle
            return ";" if self._semi_toggle else ""
        return ""

    def emit(self, depth: int, text: str) -> int:
        if self.style.trailing_comments and text and not text.startswith("//") and not text.rstrip().endswith(("{", "}")) \
                and not text.startswith(("proto ", "import ")):
            text = text + " // t%d" % len(self.lines)
        self.lines.append(self.style.indent * depth + text)
        return len(self.lines)

    def comments(self, depth, comments):
        for c in comments:
            self.emit(depth, "// " + c if c != "" else "//")

    def note_type_refs(self, t, line, start_col):
        """Record Named / constant references occurring inside the printed type text."""
        text = type_text(t)
        # walk the type, tokens appear left to right: element path first, then cap_text
        base = t
        caps = []
        while isinstance(base, Array):
            caps.append(base)
            base = base.elem
        if isinstance(base, Named):
            self.map.add_ref(base.path, line, start_col, self.file, "type")
        pos = len(type_text(base))
        for a in reversed(caps):
            pos += 1  # '['
            ct = a.cap_text if a.cap_text is not None else str(a.cap)
            if a.cap_text is not None and not a.cap_text[0].isdigit():
                self.map.add_ref(a.cap_text, line, start_col + pos, self.file, "const")
            pos += len(ct) + 1 + (1 if a.ext else 0)
        return text

    # -- items
    def item(self, it, depth, path):
        st = self.style
        ind = len(st.indent) * depth
        if isinstance(it, Raw):
            first = None
            for ln in it.text.split("\n"):
                n = self.emit(depth, ln)
                first = first or n
            self.map.raws.append(dict(tag=it.tag, line=first, last=len(self.lines), file=self.file))
        elif isinstance(it, ConstDef):
            self.comments(depth, it.comments)
            rhs = it.text if it.text is not None else value_text(it.value)
            n = self.emit(depth, "const %s = %s%s" % (it.name, rhs, self.semi()))
            self.map.add_def(path + (it.name,), "const", n, ind + 7, it.name, self.file)
        elif isinstance(it, OptionDef):
            rhs = it.text if it.text is not None else value_text(it.value)
            n = self.emit(depth, "option %s = %s%s" % (it.name, rhs, self.semi()))
            self.map.add_def(path + ("option:" + it.name,), "option", n, ind + 8, it.name, self.file)
        elif isinstance(it, AliasDef):
            self.comments(depth, it.comments)
            if it.typedef_style:
                tt = type_text(it.type)
                n = self.emit(depth, "typedef %s %s%s" % (tt, it.name, self.semi()))
                self.note_type_refs(it.type, n, ind + 9)
                self.map.add_def(path + (it.name,), "alias", n, ind + 9 + len(tt) + 1, it.name, self.file)
            else:
                n = self.emit(depth, "type %s = %s%s" % (it.name, type_text(it.type), self.semi()))
                self.note_type_refs(it.type, n, ind + 6 + len(it.name) + 3)
                self.map.add_def(path + (it.name,), "alias", n, ind + 6, it.name, self.file)
        elif isinstance(it, EnumDef):
            self.comments(depth, it.comments)
            n = self.emit(depth, "enum %s : uint%d {" % (it.name, it.width))
            self.map.add_def(path + (it.name,), "enum", n, ind + 6, it.name, self.file)
            for mname, mval in it.members:
                k = self.emit(depth + 1, "%s = %d%s" % (mname, mval, self.semi()))
                self.map.add_def(path + (it.name, mname), "enum_field", k, ind + len(st.indent) + 1, mname, self.file)
            k = self.emit(depth, "}")
            self.map.defs[tuple(path + (it.name,))]["end"] = k
        elif isinstance(it, MessageDef):
            self.comments(depth, it.comments)
            n = self.emit(depth, "message %s%s {" % (it.name, "'" if it.ext else ""))
            self.map.add_def(path + (it.name,), "message", n, ind + 9, it.name, self.file)
            for sub in it.items:
                self.item(sub, depth + 1, path + (it.name,))
            k = self.emit(depth, "}")
            self.map.defs[tuple(path + (it.name,))]["end"] = k
        elif isinstance(it, Field):
            self.comments(depth, it.comments)
            tt = type_text(it.type)
            n = self.emit(depth, "%s %s = %d%s" % (tt, it.name, it.number, self.semi()))
            self.note_type_refs(it.type, n, ind + 1)
            self.map.add_def(path + (it.name,), "field", n, ind + len(tt) + 2, it.name, self.file)
        else:
            raise TypeError(it)

    def run(self) -> str:
        p, st = self.proto, self.style
        for _ in range(st.pre_blank):
            self.emit(0, "")
        self.comments(0, p.comments)
        if p.name is not None:
            n = self.emit(0, "proto %s%s" % (p.name, self.semi()))
            self.map.add_def(("proto:" + p.name,), "proto", n, 7, p.name, self.file)
        if st.escaped_strings and p.name is not None:
            # one source line; the VALUE contains line feeds - no later position may move because of it
            # ... followed ON THE SAME LINE by a second definition: its column counts characters (not bytes, not escapes)
            tag = re.sub(r"\W", "_", p.name).upper()
            first = 'const STYLE_NOTE_%s = "l1\\nl2\\n\\n\\tq\\"uo\\"te \u00e9\u4e2d\U0001f600 \\\\n"; ' % tag
            n = self.emit(0, first + "const STYLE_K_%s = 7%s" % (tag, self.semi()))
            self.map.add_def(("STYLE_K_%s" % tag,), "const", n, len(first) + 7, "STYLE_K_%s" % tag, self.file)
        if p.imports:
            self.emit(0, "")
        for as_name, child in p.imports:
            if as_name:
                self.emit(0, 'import %s "%s"%s' % (as_name, child.filename, self.semi()))
            else:
                self.emit(0, 'import "%s"%s' % (child.filename, self.semi()))
        for it in p.items:
            for _ in range(st.blank_between if self.lines else 0):
                self.emit(0, "")
            self.item(it, 0, ())
        nl = "\r\n" if st.crlf else "\n"
        text = nl.join(self.lines)
        if st.trailing_newline:
            text += nl
        return text


def print_proto(proto: ProtoFile, style: Style = DEFAULT_STYLE):
    pr = Printer(proto, style)
    text = pr.run()
    return text, pr.map


def write_files(proto: ProtoFile, directory: str, style: Style = DEFAULT_STYLE):
    """Write proto and everything it imports into `directory`. Returns {filename: (text, srcmap)}."""
    import os

    out = {}
    for p in proto.all_files():
        text, m = print_proto(p, style)
        with open(os.path.join(directory, p.filename), "w", newline="") as f:
            f.write(text)
        out[p.filename] = (text, m)
    return out


# ------------------------------------------------------------------------ small helpers
def unalias(t):
    while isinstance(t, Named) and isinstance(t.target, AliasDef):
        t = t.target.type
    return t


def walk_defs(items, path=()):
    """Yield (path, def) for every definition (recursively into messages)."""
    for it in items:
        if isinstance(it, (EnumDef, AliasDef, ConstDef)):
            yield path + (it.name,), it
        elif isinstance(it, MessageDef):
            yield path + (it.name,), it
            yield from walk_defs(it.items, path + (it.name,))
        elif isinstance(it, Field):
            yield path + (it.name,), it
