"""Entry point:  /venv/bin/python -m bpmc.run <id> --tier quick|thorough [--replay FILE]"""
import argparse
import importlib
import json
import os
import sys

from . import bind

REGISTRY = {
    "C01": ("bpmc.checks.pycodec", "C01"),
    "C02": ("bpmc.checks.pycodec", "C02"),
    "C03": ("bpmc.checks.ccodec", "C03"),
    "C04": ("bpmc.checks.copt", "C04"),
    "C05": ("bpmc.checks.c05", "C05"),
    "C06": ("bpmc.checks.c06", "C06"),
    "C07": ("bpmc.checks.c07", "C07"),
    "C08": ("bpmc.checks.c08", "C08"),
    "C09": ("bpmc.checks.c09", "C09"),
    "C10": ("bpmc.checks.c10", "C10"),
    "C11": ("bpmc.checks.c11", "C11"),
    "C12": ("bpmc.checks.c12", "C12"),
    "C13": ("bpmc.checks.c13", "C13"),
    "C14": ("bpmc.checks.c14", "C14"),
    "C15": ("bpmc.checks.c15", "C15"),
    "C16": ("bpmc.checks.c16", "C16"),
    "C17": ("bpmc.checks.c17", "C17"),
    "C18": ("bpmc.checks.c18", "C18"),
    "C19": ("bpmc.checks.c19", "C19"),
    "C20": ("bpmc.checks.c20", "C20"),
}


def main(argv=None) -> int:
    ap = argparse.ArgumentParser()
    ap.add_argument("pid")
    ap.add_argument("--tier", default="quick", choices=["quick", "thorough"])
    ap.add_argument("--replay")
    a = ap.parse_args(argv)
    tier = os.environ.get("VERIF_TIER") or a.tier
    if tier not in ("quick", "thorough"):
        tier = a.tier
    os.environ.setdefault("PYTHONHASHSEED", "0")
    try:
        bind.bind()
    except Exception as e:
        print("INFRA-ERROR property=%s cannot bind to the working tree: %s" % (a.pid, e))
        return 2
    if a.pid not in REGISTRY:
        print("INFRA-ERROR unknown property %s" % a.pid)
        return 2
    modname, arg = REGISTRY[a.pid]
    mod = importlib.import_module(modname)
    if a.replay:
        with open(a.replay) as f:
            payload = json.load(f)
        return mod.replay(payload)
    return mod.main(arg, tier)


if __name__ == "__main__":
    sys.exit(main())
