"""Python back end: run the real compiler from /repo on IR schemas and load the generated
Python with /repo/lib/py; set / read values by reference-layout leaf paths."""
import importlib
import importlib.util
import io
import os
import shutil
import signal
import sys
import tempfile
import contextlib
from typing import Any, Dict, List, Optional

from . import bind
from .ir import ProtoFile, write_files, DEFAULT_STYLE
from .ref import Leaf


class Timeout(Exception):
    pass


@contextlib.contextmanager
def watchdog(seconds: float):
    def handler(signum, frame):
        raise Timeout("watchdog %.1fs" % seconds)

    old = signal.signal(signal.SIGALRM, handler)
    signal.setitimer(signal.ITIMER_REAL, seconds)
    try:
        yield
    finally:
        signal.setitimer(signal.ITIMER_REAL, 0)
        signal.signal(signal.SIGALRM, old)


@contextlib.contextmanager
def quiet_stderr():
    """The compiler writes lint warnings / deprecation notes to sys.stderr."""
    old = sys.stderr
    sys.stderr = io.StringIO()
    try:
        yield sys.stderr
    finally:
        sys.stderr = old


class Scratch:
    def __init__(self, prefix="bpmc-"):
        self.dir = tempfile.mkdtemp(prefix=prefix, dir=bind.scratch_root())

    def sub(self, name):
        d = os.path.join(self.dir, name)
        os.makedirs(d, exist_ok=True)
        return d

    def close(self):
        shutil.rmtree(self.dir, ignore_errors=True)

    def __enter__(self):
        return self

    def __exit__(self, *a):
        self.close()


def parse_file(path: str, traditional_mode: bool = False):
    bind.bind()
    from bitproto.parser import parse

    with quiet_stderr():
        return parse(path, traditional_mode=traditional_mode)


def parse_text(text: str, filepath: str = "", traditional_mode: bool = False):
    bind.bind()
    from bitproto.parser import parse_string

    with quiet_stderr():
        return parse_string(text, traditional_mode=traditional_mode, filepath=filepath)


def renderer_classes(lang: str):
    from bitproto.renderer.impls import renderer_registry

    return renderer_registry[lang]


def render_strings(proto, lang: str, **kw) -> Dict[str, str]:
    """{output file name: text} using the real renderers (no file written)."""
    out = {}
    for cls in renderer_classes(lang):
        r = cls(proto, outdir="/nonexistent-not-used", **kw)
        out[r.out_filename] = r.render_string()
    return out


def lint_quietly(proto):
    """What the command line does before rendering unless -q is given (warnings discarded)."""
    import bitproto.linter as L
    saved = L.warning
    L.warning = lambda *a, **k: None
    try:
        with quiet_stderr():
            L.lint(proto)
    finally:
        L.warning = saved


def render_all_files(main_path: str, lang: str, outdir: str, traditional_mode: bool = False, lint: bool = False, **kw) -> Dict[str, str]:
    """Compile `main_path` and every (transitively) imported schema file the way a user does:
    each file is parsed on its own as a top-level schema and rendered into outdir under the
    file name the compiler itself chooses.  Returns ({file name: text}, parsed main proto)."""
    out = {}
    seen = set()
    main = parse_file(main_path, traditional_mode=traditional_mode)

    def rec(p, top):
        key = os.path.realpath(p.filepath)
        if key in seen:
            return
        seen.add(key)
        for _, child in p.protos(recursive=False):
            rec(child, False)
        q = p if top else parse_file(p.filepath, traditional_mode=traditional_mode)
        if lint:
            lint_quietly(q)
        for cls in renderer_classes(lang):
            r = cls(q, outdir=outdir, **kw)
            text = r.render_string()
            with open(os.path.join(outdir, r.out_filename), "w") as f:
                f.write(text)
            out[r.out_filename] = text

    rec(main, True)
    return out, main


class PyModuleSet:
    """Generated Python modules of one schema (main + imports), imported under the names the
    generated import statements use."""

    def __init__(self, directory: str, main_stem: str):
        self.directory = directory
        self.main_stem = main_stem
        self.loaded: List[str] = []
        self.module = None

    def load(self):
        names = [f[:-3] for f in os.listdir(self.directory) if f.endswith("_bp.py")]
        for n in names:
            sys.modules.pop(n, None)
        sys.path.insert(0, self.directory)
        importlib.invalidate_caches()
        try:
            self.module = importlib.import_module(self.main_stem + "_bp")
        finally:
            sys.path.remove(self.directory)
        self.loaded = [n for n in names if n in sys.modules]
        return self.module

    def unload(self):
        for n in self.loaded:
            sys.modules.pop(n, None)
        sys.modules.pop(self.main_stem + "_bp", None)


def compile_py(proto_ir: ProtoFile, scratch_dir: str, style=DEFAULT_STYLE):
    """IR -> files -> real parser -> real Python renderer -> imported module.
    Returns (module_set, parsed_proto, srcmaps)."""
    srcmaps = write_files(proto_ir, scratch_dir, style)
    _, parsed = render_all_files(os.path.join(scratch_dir, proto_ir.filename), "py", scratch_dir)
    ms = PyModuleSet(scratch_dir, proto_ir.stem)
    ms.load()
    return ms, parsed, srcmaps


# --------------------------------------------------------------------- value access
def py_class_name(path_names) -> str:
    """Name of the generated class of a (nested) message: documented `Outer_Inner`."""
    return "_".join(path_names)


def set_leaf(obj, leaf: Leaf, v: int, enum_as_member=False, module=None, raw=False):
    cur = obj
    steps = leaf.path
    for kind, key in steps[:-1]:
        cur = getattr(cur, key) if kind == "f" else cur[key]
    kind, key = steps[-1]
    if leaf.kind == "bool" and not raw:
        val: Any = bool(v)
    else:
        val = int(v)
    if kind == "f":
        setattr(cur, key, val)
    else:
        cur[key] = val


def get_leaf(obj, leaf: Leaf):
    cur = obj
    for kind, key in leaf.path:
        cur = getattr(cur, key) if kind == "f" else cur[key]
    return cur


def set_vec(obj, leaves: List[Leaf], vec: List[int]):
    for l, v in zip(leaves, vec):
        set_leaf(obj, l, v)


def get_vec(obj, leaves: List[Leaf]) -> List[int]:
    return [int(get_leaf(obj, l)) for l in leaves]
