"""Bind this process to /repo's *working tree* (DESIGN F1).

The pinned pytest suite imports a copy of bitproto from site-packages; every bpmc
process must import the compiler and the Python runtime from /repo itself.
"""
import os
import sys

REPO = os.environ.get("BPMC_REPO", "/repo")
COMPILER_DIR = os.path.join(REPO, "compiler")
PYLIB_DIR = os.path.join(REPO, "lib", "py")
CLIB_DIR = os.path.join(REPO, "lib", "c")
GOLIB = os.path.join(REPO, "lib", "go", "bitproto.go")


class InfraError(Exception):
    """Infrastructure failure: exit status 2, never a VIOLATION."""


def bind():
    for p in (PYLIB_DIR, COMPILER_DIR):
        if p in sys.path:
            sys.path.remove(p)
        sys.path.insert(0, p)
    for m in list(sys.modules):
        if m == "bitproto" or m.startswith("bitproto.") or m == "bitprotolib" or m.startswith("bitprotolib."):
            f = getattr(sys.modules[m], "__file__", "") or ""
            if not f.startswith(REPO + "/"):
                del sys.modules[m]
    import bitproto  # noqa
    import bitprotolib.bp  # noqa

    for mod in (bitproto, bitprotolib.bp):
        f = os.path.realpath(mod.__file__)
        if not f.startswith(os.path.realpath(REPO) + "/"):
            raise InfraError("module %s resolves to %s, outside %s" % (mod.__name__, f, REPO))
    return bitproto


def scratch_root():
    """Scratch directory root: never /tmp (registered commands must not depend on it)."""
    for cand in (os.environ.get("BPMC_SCRATCH"), "/dev/shm", os.path.join(os.path.dirname(os.path.dirname(os.path.abspath(__file__))), "scratch")):
        if cand and os.path.isdir(cand) and os.access(cand, os.W_OK):
            return cand
    d = os.path.join(os.path.dirname(os.path.dirname(os.path.abspath(__file__))), "scratch")
    os.makedirs(d, exist_ok=True)
    return d


def repo_tree_id():
    """Cheap identification of the working tree state (HEAD + dirty flag)."""
    import subprocess

    try:
        head = subprocess.run(["git", "-C", REPO, "rev-parse", "HEAD"], capture_output=True, text=True).stdout.strip()
        dirty = subprocess.run(["git", "-C", REPO, "status", "--porcelain"], capture_output=True, text=True).stdout.strip()
        return head + ("+dirty" if dirty else "")
    except Exception:
        return "unknown"
