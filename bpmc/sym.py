"""Symbolic (id-based) schemas: definitions carry unique ids, type references name ids, and the
textual path of every reference is computed at link time from where the definition lives.
Rewrites (C12) and evolution steps operate on this form; `link` turns it into IR files."""
import copy
from collections import OrderedDict
from typing import Any, Dict, List, Optional, Tuple

from .ir import (AliasDef, Array, Bool, Byte, ConstDef, EnumDef, Field, Int, MessageDef, Named, ProtoFile, Uint)

# definition: dict(kind="msg"|"enum"|"alias"|"const", id=int, name=str, ...)
#   msg:   ext=bool, items=[field | nested definition], comments=[...]
#   field: dict(kind="field", type=texpr, name=str, number=int)
#   enum:  width=int, members=[(name, value)]
#   alias: type=texpr
#   const: value=int, text=str|None
# texpr: ("bool",) ("byte",) ("uint", n) ("int", n) ("ref", id) ("arr", elem, cap, ext, cap_const_id|None, cap_form|None)
# schema: dict(main=stem, files=OrderedDict(stem -> dict(name=proto name, imports=[(as|None, stem)], defs=[definition...])))


def clone(s):
    return copy.deepcopy(s)


def walk_defs(defs, path=()):
    """Yield (definition, container list, index, path of enclosing message names)."""
    for i, d in enumerate(defs):
        if d["kind"] == "field":
            continue
        yield d, defs, i, path
        if d["kind"] == "msg":
            yield from walk_defs(d["items"], path + (d["name"],))


def all_defs(schema):
    for stem, f in schema["files"].items():
        for d, cont, i, path in walk_defs(f["defs"]):
            yield stem, d, cont, i, path


def find(schema, did):
    for stem, d, cont, i, path in all_defs(schema):
        if d["id"] == did:
            return stem, d, cont, i, path
    raise KeyError(did)


def refs_in_texpr(t):
    if t[0] == "ref":
        yield t[1]
    elif t[0] == "arr":
        yield from refs_in_texpr(t[1])
        if t[4] is not None:
            yield t[4]


def refs_of(d):
    """ids referenced by definition d (transitively through nested definitions)."""
    if d["kind"] == "alias":
        yield from refs_in_texpr(d["type"])
    elif d["kind"] == "const":
        if d.get("ref") is not None:
            yield d["ref"]
    elif d["kind"] == "msg":
        for it in d["items"]:
            if it["kind"] == "field":
                yield from refs_in_texpr(it["type"])
            else:
                yield from refs_of(it)


def ids_in(d):
    yield d["id"]
    if d["kind"] == "msg":
        for it in d["items"]:
            if it["kind"] != "field":
                yield from ids_in(it)


def max_id(schema):
    return max(d["id"] for _, d, _, _, _ in all_defs(schema))


def all_names(schema):
    names = set()
    for stem, d, cont, i, path in all_defs(schema):
        names.add(d["name"])
        if d["kind"] == "enum":
            names.update(n for n, _ in d["members"])
        if d["kind"] == "msg":
            names.update(it["name"] for it in d["items"] if it["kind"] == "field")
    return names


def link(schema, suffix="") -> Tuple[ProtoFile, Dict[int, Any]]:
    """Symbolic -> IR.  Returns (main ProtoFile with imports, {id: IR definition})."""
    built: Dict[int, Any] = {}
    where: Dict[int, Tuple[str, Tuple[str, ...]]] = {}
    protos: Dict[str, ProtoFile] = {}

    def order_files():
        out, seen = [], set()

        def rec(stem):
            if stem in seen:
                return
            seen.add(stem)
            for _, child in schema["files"][stem]["imports"]:
                rec(child)
            out.append(stem)

        rec(schema["main"])
        return out

    def path_text(did, from_stem, use_path=()):
        stem, names = where[did]
        dotted = ".".join(names)
        if stem == from_stem:
            # relative to the use site: a message under construction is not yet a member of its parent
            k = 0
            while k < len(use_path) and k < len(names) - 1 and use_path[k] == names[k]:
                k += 1
            return ".".join(names[k:])
        for as_name, child in schema["files"][from_stem]["imports"]:
            if child == stem:
                return (as_name or schema["files"][child]["name"]) + "." + dotted
        raise KeyError("definition %r not visible from %s" % (did, from_stem))

    def ty(t, stem, use_path=()):
        k = t[0]
        if k == "bool":
            return Bool()
        if k == "byte":
            return Byte()
        if k == "uint":
            return Uint(t[1])
        if k == "int":
            return Int(t[1])
        if k == "ref":
            return Named(built[t[1]], path_text(t[1], stem, use_path))
        if k == "arr":
            cap_text = None
            if t[4] is not None:
                cname = path_text(t[4], stem, use_path)
                cap_text = (t[5] or "{K}").replace("{K}", cname)
            return Array(ty(t[1], stem, use_path), t[2], t[3], cap_text)
        raise ValueError(t)

    def build(d, stem, path):
        name = d["name"] + (suffix if d["kind"] != "const" else "")
        comments = tuple(d.get("comments", ()))
        where[d["id"]] = (stem, path + (name,))
        if d["kind"] == "enum":
            b = EnumDef(name, d["width"], tuple(d["members"]), comments)
        elif d["kind"] == "alias":
            b = AliasDef(name, ty(d["type"], stem, path), False, comments)
        elif d["kind"] == "const":
            text = d.get("text")
            if d.get("ref") is not None:
                text = d["form"].replace("{K}", path_text(d["ref"], stem, path))
            b = ConstDef(name, d["value"], text, comments)
        elif d["kind"] == "msg":
            items = []
            for it in d["items"]:
                if it["kind"] == "field":
                    items.append(Field(ty(it["type"], stem, path + (name,)), it["name"], it["number"], tuple(it.get("comments", ()))))
                else:
                    items.append(build(it, stem, path + (name,)))
            b = MessageDef(name, d["ext"], tuple(items), comments)
        else:
            raise ValueError(d["kind"])
        built[d["id"]] = b
        return b

    for stem in order_files():
        f = schema["files"][stem]
        items = tuple(build(d, stem, ()) for d in f["defs"])
        imports = tuple((as_name, protos[child]) for as_name, child in f["imports"])
        protos[stem] = ProtoFile(f["name"], stem, imports, items)
    return protos[schema["main"]], built


# ------------------------------------------------------------------ small constructors
class Ids:
    def __init__(self):
        self.n = 0

    def __call__(self):
        self.n += 1
        return self.n


def field(t, name, number):
    return dict(kind="field", type=t, name=name, number=number)


def msg(ids, name, ext, items):
    return dict(kind="msg", id=ids(), name=name, ext=ext, items=list(items))


def enum(ids, name, width, members):
    return dict(kind="enum", id=ids(), name=name, width=width, members=list(members))


def alias(ids, name, t):
    return dict(kind="alias", id=ids(), name=name, type=t)


def const(ids, name, value, text=None):
    return dict(kind="const", id=ids(), name=name, value=value, text=text)


def arr(elem, cap, ext=False, cap_const=None, cap_form=None):
    return ("arr", elem, cap, ext, cap_const, cap_form)


def schema(defs, libs=None, main="t"):
    files = OrderedDict()
    imports = []
    for stem, (as_name, ldefs) in (libs or {}).items():
        files[stem] = dict(name=stem, imports=[], defs=list(ldefs))
        imports.append((as_name, stem))
    files[main] = dict(name=main, imports=imports, defs=list(defs))
    return dict(main=main, files=files)


def canon(schema) -> str:
    return repr(schema)
