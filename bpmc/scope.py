"""Bounded state spaces of schemas (DESIGN 3.3).

A *case* is one message under test plus the named definitions it needs, each with a
placement (main file top level, nested in the message under test, plain-imported file,
`as`-imported file, nested in a message of the imported file).  Cases are batched into one
schema (main + two library files) so one parse/render serves many states.
"""
import itertools
from dataclasses import dataclass, field
from typing import Any, Dict, Iterable, List, Optional, Tuple

from .ir import (AliasDef, Array, Bool, Byte, EnumDef, Field, Int, MessageDef, Named,
                 ProtoFile, Uint)

W_QUICK = (1, 2, 3, 7, 8, 9, 15, 16, 17, 24, 31, 32, 33, 40, 63, 64)
W_ALL = tuple(range(1, 65))
WE_QUICK = (1, 3, 8, 9, 16, 33)
WE_THOROUGH = (1, 2, 3, 7, 8, 9, 15, 16, 17, 31, 32, 33, 64)
C_QUICK = (1, 2, 3, 5, 8)
C_THOROUGH = (1, 2, 3, 4, 5, 7, 8, 9, 16, 17, 31)

LIBP = "lp"  # plain import:  import "lp.bitproto"      -> lp.X
LIBA = "la"  # import as:     import al "la.bitproto"   -> al.X
LIBA_AS = "al"


def enum_members(width: int, tag: str, order="zero_first", cap=12):
    """{0} u {2^k} u {2^w-1} u {0x55.. truncated}: every bit of the enum is exercised by a
    legal member."""
    vals = [0]
    for k in range(width):
        vals.append(1 << k)
    vals.append((1 << width) - 1)
    vals.append(0x5555555555555555 & ((1 << width) - 1))
    out, seen = [], set()
    for v in vals:
        if v not in seen:
            seen.add(v)
            out.append(v)
    if len(out) > cap:
        # keep zero, lowest two bits, the bits around byte boundaries, top bit, all-ones, 0x55
        keep = {0, 1, 2, (1 << width) - 1, 0x5555555555555555 & ((1 << width) - 1), 1 << (width - 1)}
        for k in (7, 8, 15, 16, 31, 32):
            if k < width:
                keep.add(1 << k)
        out = [v for v in out if v in keep][:cap]
    if order == "zero_last":
        out = out[1:] + out[:1]
    return tuple(("E%sV%d" % (tag.upper(), v), v) for v in out)


@dataclass
class Case:
    cid: str
    msg: MessageDef
    top: Tuple[Any, ...] = ()
    libp: Tuple[Any, ...] = ()
    liba: Tuple[Any, ...] = ()
    desc: str = ""
    feats: frozenset = frozenset()


class CaseBuilder:
    """Allocates definitions with placements for one case."""

    def __init__(self, cid: str):
        self.cid = cid
        self.top: List[Any] = []
        self.libp: List[Any] = []
        self.liba: List[Any] = []
        self.nested: List[Any] = []  # defs nested in the message under test (before fields)
        self.libp_nested: List[Any] = []  # defs nested in holder message of lp
        self.feats = set()
        self.n = 0

    def fresh(self, prefix):
        self.n += 1
        return "%s%sn%d" % (prefix, self.cid, self.n)

    def place(self, d, placement: str):
        """Return the Named reference to `d` as seen from inside the message under test."""
        self.feats.add("place:" + placement)
        if placement == "top":
            self.top.append(d)
            return Named(d, d.name)
        if placement == "nested":
            assert not isinstance(d, AliasDef)
            self.nested.append(d)
            return Named(d, d.name)
        if placement == "libp":
            self.libp.append(d)
            return Named(d, LIBP + "." + d.name)
        if placement == "liba":
            self.liba.append(d)
            return Named(d, LIBA_AS + "." + d.name)
        if placement == "libp_nested":
            assert not isinstance(d, AliasDef)
            holder = "H%s" % self.cid
            self.libp_nested.append(d)
            return Named(d, "%s.%s.%s" % (LIBP, holder, d.name))
        raise ValueError(placement)

    def finish(self, name, ext, fields, desc) -> Case:
        libp = list(self.libp)
        if self.libp_nested:
            libp.append(MessageDef("H%s" % self.cid, False, tuple(self.libp_nested)))
        msg = MessageDef(name, ext, tuple(self.nested) + tuple(fields))
        return Case(self.cid, msg, tuple(self.top), tuple(libp), tuple(self.liba), desc, frozenset(self.feats))


def make_batch(cases: List[Case], stem="t") -> ProtoFile:
    libp_items = tuple(itertools.chain.from_iterable(c.libp for c in cases))
    liba_items = tuple(itertools.chain.from_iterable(c.liba for c in cases))
    imports = []
    if libp_items:
        imports.append((None, ProtoFile(LIBP, LIBP, (), libp_items)))
    if liba_items:
        imports.append((LIBA_AS, ProtoFile(LIBA, LIBA, (), liba_items)))
    items = []
    for c in cases:
        items.extend(c.top)
        items.append(c.msg)
    return ProtoFile(stem, stem, tuple(imports), tuple(items))


# ------------------------------------------------------------------------- leaf kinds
def leaf_kinds(widths, enum_widths):
    ks = [("bool", None), ("byte", None)]
    ks += [("uint", w) for w in widths]
    ks += [("int", w) for w in widths]
    ks += [("enum", w) for w in enum_widths]
    return ks


def make_leaf(b: CaseBuilder, kind, w, placement="top", enum_order="zero_first"):
    """Returns the IR type of a leaf kind (declaring the enum where needed)."""
    if kind == "bool":
        return Bool()
    if kind == "byte":
        return Byte()
    if kind == "uint":
        return Uint(w)
    if kind == "int":
        return Int(w)
    if kind == "enum":
        tag = b.fresh("")
        e = EnumDef("E" + tag, w, enum_members(w, tag, enum_order))
        b.feats.add("enum")
        if w > 8:
            b.feats.add("enum_width>8")
        if enum_order != "zero_first":
            b.feats.add("enum_first_nonzero")
        return b.place(e, placement)
    raise ValueError(kind)


WRAPPERS = ("scalar", "alias", "arr", "arr_ext", "alias_arr", "alias_arr_ext", "arr_of_alias",
            "arr2d", "arr2d_ext", "msg", "msg_ext", "arr_msg", "arr_ext_msg_ext")


def wrap(b: CaseBuilder, wrapper: str, kind, w, cap, placement="top", enum_order="zero_first"):
    """Build the field type for (leaf kind, wrapper, capacity). Returns None when illegal."""
    is_enum = kind == "enum"
    pl_alias = placement if placement in ("top", "libp", "liba") else "top"
    pl_enum = placement
    pl_msg = placement
    b.feats.add("wrap:" + wrapper)
    if wrapper == "scalar":
        return make_leaf(b, kind, w, pl_enum, enum_order)
    if wrapper == "alias":
        if is_enum:
            return None  # an alias may only name unnamed types
        a = AliasDef(b.fresh("A"), make_leaf(b, kind, w))
        return b.place(a, pl_alias)
    if wrapper in ("arr", "arr_ext"):
        return Array(make_leaf(b, kind, w, pl_enum, enum_order), cap, wrapper == "arr_ext")
    if wrapper in ("alias_arr", "alias_arr_ext"):
        # the enum (if any) must live where the alias can see it: same file as the alias
        leaf = make_leaf(b, kind, w, pl_alias if is_enum else "top", enum_order)
        if is_enum and pl_alias in ("libp", "liba"):
            leaf = Named(leaf.target, leaf.target.name)  # inside the library: unqualified
        a = AliasDef(b.fresh("A"), Array(leaf, cap, wrapper.endswith("_ext")))
        return b.place(a, pl_alias)
    if wrapper == "arr_of_alias":
        if is_enum:
            return None
        a = AliasDef(b.fresh("A"), make_leaf(b, kind, w))
        return Array(b.place(a, pl_alias), cap, False)
    if wrapper in ("arr2d", "arr2d_ext"):
        leaf = make_leaf(b, kind, w, pl_alias if is_enum else "top", enum_order)
        if is_enum and pl_alias in ("libp", "liba"):
            leaf = Named(leaf.target, leaf.target.name)
        a = AliasDef(b.fresh("A"), Array(leaf, cap, wrapper == "arr2d_ext"))
        return Array(b.place(a, pl_alias), 2, wrapper == "arr2d_ext")
    if wrapper in ("msg", "msg_ext", "arr_msg", "arr_ext_msg_ext"):
        inner_ext = wrapper in ("msg_ext", "arr_ext_msg_ext")
        # the leaf's enum is nested in the inner message itself (closest legal scope)
        ib = CaseBuilder(b.cid + "i")
        ib.n = b.n + 100
        leaf = make_leaf(ib, kind, w, "nested", enum_order) if is_enum else make_leaf(b, kind, w)
        b.feats |= ib.feats
        inner = MessageDef(b.fresh("I"), inner_ext,
                           tuple(ib.nested) + (Field(Uint(2), "a", 1), Field(leaf, "v", 2)))
        ref = b.place(inner, pl_msg)
        if wrapper in ("msg", "msg_ext"):
            return ref
        return Array(ref, cap, wrapper == "arr_ext_msg_ext")
    raise ValueError(wrapper)


def sing_case(cid, kind, w, wrapper, cap, pad, ext, placement="top", enum_order="zero_first", tail=True, fnum=2):
    b = CaseBuilder(cid)
    t = wrap(b, wrapper, kind, w, cap, placement, enum_order)
    if t is None:
        return None
    fields = []
    if pad:
        fields.append(Field(Uint(pad), "pad", 1))
    fields.append(Field(t, "f", fnum))
    if tail:
        fields.append(Field(Uint(5), "tail", 3 if fnum < 3 else (255 if fnum == 254 else 2)))
    if not tail:
        b.feats.add("last_member")
    if fnum != 2:
        b.feats.add("fnum:%d" % fnum)
    b.feats.add("pad:%d" % pad)
    b.feats.add("kind:%s" % kind)
    if ext:
        b.feats.add("msg_ext")
    desc = "SING kind=%s%s wrapper=%s cap=%s pad=%d ext=%s place=%s order=%s%s%s" % (
        kind, w or "", wrapper, cap, pad, ext, placement, enum_order, "" if fnum == 2 else " fnum=%d" % fnum, "" if tail else " last-member")
    return b.finish("M" + cid, ext, fields, desc)


def sing_space(tier: str) -> List[Case]:
    """SING: every type shape at several bit offsets with something after it."""
    quick = tier == "quick"
    widths = W_QUICK if quick else W_ALL
    ew = WE_QUICK if quick else WE_THOROUGH
    caps = (3, 8) if quick else (1, 2, 3, 5, 8, 9, 17)
    pads = (0, 3, 7) if quick else (0, 1, 2, 3, 4, 5, 6, 7)
    cases, n = [], 0

    def add(c):
        nonlocal n
        if c is not None:
            cases.append(c)
            n += 1

    for kind, w in leaf_kinds(widths, ew):
        for wrapper in WRAPPERS:
            wcaps = caps if "arr" in wrapper else (0,)
            for cap in wcaps:
                for pad in pads:
                    for ext in ((False, True) if pad == pads[1] else (False,)):
                        add(sing_case("s%d" % n, kind, w, wrapper, cap, pad, ext))
    # placement deviations (1 non-default placement) on a reduced kind set
    pk = [("uint", 3), ("int", 13), ("enum", 3), ("enum", 9), ("byte", None)]
    for kind, w in pk:
        for wrapper in WRAPPERS:
            for placement in ("nested", "libp", "liba", "libp_nested"):
                if placement in ("nested", "libp_nested") and kind != "enum" and not ("msg" in wrapper):
                    continue  # nothing nameable to place
                add(sing_case("s%d" % n, kind, w, wrapper, 3, 3, False, placement))
    # field-number boundaries: the field under test at number 255 (last) and 254 (followed by 255)
    for kind, w in [("uint", 3), ("int", 13), ("enum", 3), ("bool", None)]:
        for wrapper in WRAPPERS:
            for fnum in (254, 255):
                add(sing_case("s%d" % n, kind, w, wrapper, 3, 3, False, "top", "zero_first", True, fnum))
    # the field under test is the LAST member of the struct and the last bits of the message (nothing absorbs an access beyond it)
    for kind, w in leaf_kinds(widths, ew):
        add(sing_case("s%d" % n, kind, w, "scalar", 0, 3, False, tail=False))
        for wrapper in ("arr", "alias_arr", "arr2d"):
            for cap in (3, 5):
                add(sing_case("s%d" % n, kind, w, wrapper, cap, 0, False, tail=False))
    # enum declaration order deviation: first declared member non-zero
    for w in ew:
        for wrapper in ("scalar", "arr", "arr_ext", "alias_arr", "msg", "arr_msg"):
            for pad in (0, 5):
                add(sing_case("s%d" % n, "enum", w, wrapper, 3, pad, False, "top", "zero_last"))
    return cases


# ---------------------------------------------------------------------------- COMB(k)
def comb_alphabet(b: CaseBuilder):
    """12 type shapes TR (DESIGN 3.3); thunks so that each use declares its own defs."""
    def inner(ext):
        def mk():
            m = MessageDef(b.fresh("I"), ext, (Field(Bool(), "p", 1), Field(Int(6), "q", 2)))
            return b.place(m, "top")
        return mk

    def enum3():
        tag = b.fresh("")
        return b.place(EnumDef("E" + tag, 3, enum_members(3, tag)), "top")

    return [
        ("bool", lambda: Bool()),
        ("uint3", lambda: Uint(3)),
        ("int5", lambda: Int(5)),
        ("byte", lambda: Byte()),
        ("uint13", lambda: Uint(13)),
        ("int24", lambda: Int(24)),
        ("uint64", lambda: Uint(64)),
        ("enum3", enum3),
        ("bool[3]", lambda: Array(Bool(), 3)),
        ("uint9[2]'", lambda: Array(Uint(9), 2, True)),
        ("Inner", inner(False)),
        ("Inner'[2]", lambda: Array(inner(True)(), 2)),
        ("alias int13", lambda: b.place(AliasDef(b.fresh("A"), Int(13)), "top")),
        ("Row[2] Row=uint4[2]", lambda: Array(b.place(AliasDef(b.fresh("A"), Array(Uint(4), 2)), "top"), 2)),
    ]


def comb_space(kmax: int) -> List[Case]:
    """All messages with k <= kmax fields over TR, all assignments of field numbers to
    declaration positions (k! permutations + one gapped numbering), both ext flags."""
    cases, n = [], 0
    nshapes = 14
    for k in range(1, kmax + 1):
        for combo in itertools.product(range(nshapes), repeat=k):
            numberings = [list(p) for p in itertools.permutations(range(1, k + 1))]
            numberings.append([255 - 127 * i for i in range(k)] if k > 1 else [255])
            for nums in numberings:
                for ext in (False, True):
                    b = CaseBuilder("c%d" % n)
                    alpha = comb_alphabet(b)
                    fields = []
                    names = []
                    for pos, (ci, num) in enumerate(zip(combo, nums)):
                        nm, mk = alpha[ci]
                        names.append(nm)
                        fields.append(Field(mk(), "f%d" % (pos + 1), num))
                    b.feats.add("comb%d" % k)
                    if nums != sorted(nums):
                        b.feats.add("numbers_not_in_decl_order")
                    cases.append(b.finish("M" + b.cid, ext, fields,
                                          "COMB k=%d types=%s numbers=%s ext=%s" % (k, names, nums, ext)))
                    n += 1
    return cases


# ---------------------------------------------------------------------------- TREE(n)
def tree_shapes(n: int):
    """All type trees with exactly n nodes. A shape is a nested tuple:
    ('leaf', name) | ('msg', ext, (children...)) | ('arr', ext, cap, child)."""
    if n <= 0:
        return
    if n == 1:
        for l in ("uint3", "int9", "bool"):
            yield ("leaf", l)
        return
    # array node
    for child in tree_shapes(n - 1):
        for ext in (False, True):
            for cap in (1, 2):
                yield ("arr", ext, cap, child)
    # message with one child
    for child in tree_shapes(n - 1):
        for ext in (False, True):
            yield ("msg", ext, (child,))
    # message with two children
    for a in range(1, n - 1):
        bsz = n - 1 - a
        for ca in tree_shapes(a):
            for cb in tree_shapes(bsz):
                for ext in (False, True):
                    yield ("msg", ext, (ca, cb))


def tree_case(cid: str, shape) -> Case:
    b = CaseBuilder(cid)

    def build(sh):
        if sh[0] == "leaf":
            return {"uint3": Uint(3), "int9": Int(9), "bool": Bool()}[sh[1]]
        if sh[0] == "msg":
            _, ext, children = sh
            fields = tuple(Field(build(c), "g%d" % (i + 1), i + 1) for i, c in enumerate(children))
            m = MessageDef(b.fresh("T"), ext, fields)
            return b.place(m, "top")
        if sh[0] == "arr":
            _, ext, cap, child = sh
            ct = build(child)
            if isinstance(ct, Array):  # arrays are one-dimensional: go through an alias
                a = AliasDef(b.fresh("A"), ct)
                ct = b.place(a, "top")
            return Array(ct, cap, ext)
        raise ValueError(sh)

    t = build(shape)
    fields = [Field(Uint(3), "pre", 1), Field(t, "f", 2), Field(Uint(6), "post", 3)]
    return b.finish("M" + cid, False, fields, "TREE %r" % (shape,))


def tree_space(nmax: int) -> List[Case]:
    cases, k = [], 0
    for n in range(1, nmax + 1):
        for sh in tree_shapes(n):
            cases.append(tree_case("t%d" % k, sh))
            k += 1
    return cases


# ------------------------------------------------------------------------ HOMONYMS
def homonym_space() -> List[Case]:
    """Two DIFFERENT definitions with the SAME local name and different widths in one compilation
    (nested in sibling messages / local vs imported), in both orders: whatever is remembered per
    name instead of per definition (type caches, helper-name tables, memoised lookups) collides."""
    cases, n = [], 0
    for w1, w2 in ((3, 16), (16, 3), (9, 33), (33, 9), (20, 5)):
        for arr in (False, True):
            # (a) enums nested in sibling messages
            cid = "h%d" % n
            n += 1
            b = CaseBuilder(cid)
            e1 = EnumDef("Kind", w1, enum_members(w1, cid + "a"))
            e2 = EnumDef("Kind", w2, enum_members(w2, cid + "b"))

            def use(e):
                t = Named(e, "Kind")
                return Array(t, 2) if arr else t

            ma = MessageDef("A" + cid, False, (e1, Field(use(e1), "k", 1), Field(Uint(2), "p", 2)))
            mb = MessageDef("B" + cid, False, (e2, Field(use(e2), "k", 1), Field(Bool(), "q", 2)))
            b.nested += [ma, mb]
            b.feats.update({"homonym", "homonym:nested-enum", "enum"} | ({"enum_width>8"} if max(w1, w2) > 8 else set()))
            fields = [Field(Uint(3), "pad", 1), Field(Named(ma, ma.name), "a", 2), Field(Named(mb, mb.name), "b", 3), Field(Uint(5), "tail", 4)]
            cases.append(b.finish("M" + cid, False, fields, "HOMONYM nested enums Kind:uint%d / Kind:uint%d array=%s" % (w1, w2, arr)))
            # (a') MESSAGES of the same name nested in sibling messages, each with an array field of the same number
            # (helper functions / tables named after "<message>_<field number>" must not collide)
            cid = "h%d" % n
            n += 1
            b = CaseBuilder(cid)
            s1 = MessageDef("Slot", False, (Field(Array(Uint(w1), 2), "v", 1), Field(Bool(), "on", 2)))
            s2 = MessageDef("Slot", False, (Field(Array(Int(w2), 2), "v", 1), Field(Uint(3), "n", 2)))
            ma = MessageDef("T" + cid, False, (s1, Field(Array(Named(s1, "Slot"), 2) if arr else Named(s1, "Slot"), "s", 1)))
            mb = MessageDef("U" + cid, False, (s2, Field(Array(Named(s2, "Slot"), 2) if arr else Named(s2, "Slot"), "s", 1)))
            b.nested += [ma, mb]
            b.feats.update({"homonym", "homonym:nested-message"})
            fields = [Field(Uint(3), "pad", 1), Field(Named(ma, ma.name), "a", 2), Field(Named(mb, mb.name), "b", 3), Field(Uint(5), "tail", 4)]
            cases.append(b.finish("M" + cid, False, fields, "HOMONYM nested messages Slot{uint%d[2]} / Slot{int%d[2]} array=%s" % (w1, w2, arr)))
            # (b) an imported enum and a local enum of the same name; (c) the same with aliases (signed, so that sign handling is per definition)
            for kind in ("enum", "alias"):
                cid = "h%d" % n
                n += 1
                b = CaseBuilder(cid)
                if kind == "enum":
                    d1 = EnumDef("Mode" + cid, w1, enum_members(w1, cid + "a"))
                    d2 = EnumDef("Mode" + cid, w2, enum_members(w2, cid + "b"))
                    b.feats.update({"enum"} | ({"enum_width>8"} if max(w1, w2) > 8 else set()))
                else:
                    d1 = AliasDef("Tick" + cid, Int(w1))
                    d2 = AliasDef("Tick" + cid, Int(w2))
                r1 = b.place(d1, "libp")
                r2 = b.place(d2, "top")
                # C has one global name space: the two definitions collide there unless c.name_prefix is used (C10 excludes such schemas for C)
                b.feats.update({"homonym", "homonym:imported-%s" % kind, "c_name_clash"})
                t1, t2 = (Array(r1, 2), Array(r2, 2)) if arr else (r1, r2)
                fields = [Field(Uint(3), "pad", 1), Field(t1, "a", 2), Field(t2, "b", 3), Field(Uint(5), "tail", 4)]
                cases.append(b.finish("M" + cid, False, fields, "HOMONYM imported/local %s %d / %d bits array=%s" % (kind, w1, w2, arr)))
    return cases


# ---------------------------------------------------------------------------- EMPTY
def empty_space() -> List[Case]:
    """Messages without fields (docs/language.rst allows them, e.g. as placeholders): plain (0 bits) and extensible (the 16-bit
    size prefix only) - alone, between two fields, as array element, nested in an extensible message."""
    cases, n = [], 0
    for ext in (False, True):
        for shape in ("alone", "between", "array", "ext_array", "in_ext_message", "two"):
            cid = "e%d" % n
            n += 1
            b = CaseBuilder(cid)
            r = b.place(MessageDef("R" + cid, ext, ()), "top")
            b.feats.update({"empty_message", "msg_ext" if ext else "msg_plain"})
            if shape == "alone":
                fields = [Field(r, "r", 1)]
            elif shape == "between":
                fields = [Field(Uint(3), "kind", 1), Field(r, "r", 2), Field(Uint(5), "seq", 3)]
            elif shape == "array":
                fields = [Field(Int(7), "head", 1), Field(Array(r, 2), "rs", 2), Field(Int(10), "tail", 3)]
            elif shape == "ext_array":
                fields = [Field(Uint(2), "head", 1), Field(Array(r, 3, True), "rs", 2), Field(Uint(9), "tail", 3)]
            elif shape == "two":
                fields = [Field(r, "a", 1), Field(r, "b", 2), Field(Bool(), "t", 3)]
            else:
                fields = [Field(Bool(), "head", 1), Field(r, "r", 2), Field(Uint(12), "tail", 3)]
            cases.append(b.finish("M" + cid, shape == "in_ext_message", fields, "EMPTY message%s %s" % ("'" if ext else "", shape)))
    return cases


# ----------------------------------------------------------------------------- BIG
def big_space(codec_only: bool = False) -> List[Case]:
    """Messages far beyond the other scopes' sizes: > 255 bytes, > 4 096 bytes (32 767 bits), the 65 535-bit maximum."""
    out = []

    def add(cid, ext, mk, desc, codec=True):
        if codec_only and not codec:
            return
        b = CaseBuilder(cid)
        b.feats.add("big")
        out.append(b.finish("M" + cid, ext, mk(b), "BIG " + desc))

    add("b0", False, lambda b: [Field(Array(Byte(), 256), "a", 1)], "byte[256]")
    add("b1", False, lambda b: [Field(Array(Uint(64), 1023), "a", 1), Field(Uint(7), "t", 2)], "uint64[1023] + uint7 (65 479 bits)")
    add("b2", False, lambda b: [Field(Array(Bool(), 65535), "a", 1)], "bool[65535] (the maximum: 65 535 bits)", codec=False)
    add("b3", True, lambda b: [Field(Array(Byte(), 300, True), "a", 1)], "extensible message with byte[300]'")
    add("b4", False, lambda b: [Field(Array(Int(33), 100), "a", 1)], "int33[100] (3 300 bits, 412.5 bytes)")

    def nested(b):
        inner = MessageDef("I" + b.cid, False, (Field(Array(Byte(), 255), "p", 1), Field(Bool(), "q", 2)))
        r = b.place(inner, "top")
        return [Field(r, "x", 1), Field(Array(r, 3), "y", 2), Field(Uint(1), "z", 3)]

    add("b5", False, nested, "message of 2 041 bits used scalar and [3] (8 165 bits)")
    add("b6", False, lambda b: [Field(Uint(3), "head", 1), Field(Array(Uint(16), 2100), "samples", 2), Field(Uint(7), "tail", 3)], "uint3 + uint16[2100] + uint7 (33 610 bits)")
    add("b7", False, lambda b: [Field(Array(Int(32), 1500), "a", 1), Field(Bool(), "t", 2)], "int32[1500] + bool (48 001 bits)")
    add("b8", False, lambda b: [Field(Array(Byte(), 8000), "a", 1)], "byte[8000] (64 000 bits)")
    add("b9", False, lambda b: [Field(Uint(5), "head", 1), Field(Array(Uint(12), 3000), "a", 2)], "uint5 + uint12[3000] (36 005 bits, element by element)")
    return out


def batches(cases: List[Case], size: int) -> List[List[Case]]:
    return [cases[i:i + size] for i in range(0, len(cases), size)]
