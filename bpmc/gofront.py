"""A Go-subset front end (no Go toolchain in this image): lexer with automatic semicolon
insertion, parser for the constructs the generator and lib/go/bitproto.go use (and a bit more,
so equivalent refactorings still parse), static checks, and a typed evaluator implementing
Go's fixed-width wrap-around, arithmetic >> on signed operands and conversion truncation.

Text this front end cannot read is an *infrastructure* error (GoSyntaxError names the
construct), never a property verdict."""
import re
from typing import Any, Dict, List, Optional, Tuple


class GoSyntaxError(Exception):
    pass


class GoEvalError(Exception):
    pass


KEYWORDS = {"break", "case", "chan", "const", "continue", "default", "defer", "else", "fallthrough", "for", "func", "go", "goto", "if",
            "import", "interface", "map", "package", "range", "return", "select", "struct", "switch", "type", "var"}
OPS = ["<<=", ">>=", "&^=", "...", "&&", "||", "<-", "++", "--", "==", "!=", "<=", ">=", ":=", "+=", "-=", "*=", "/=", "%=", "&=", "|=", "^=",
       "<<", ">>", "&^", "+", "-", "*", "/", "%", "&", "|", "^", "<", ">", "=", "!", "(", ")", "[", "]", "{", "}", ",", ";", ".", ":"]
TOKEN_RE = re.compile(
    r"(?P<ws>[ \t\r]+)|(?P<nl>\n)|(?P<lc>//[^\n]*)|(?P<bc>/\*.*?\*/)|(?P<raw>`[^`]*`)|(?P<str>\"(?:[^\"\\\n]|\\.)*\")|(?P<chr>'(?:[^'\\\n]|\\.)+')|"
    r"(?P<num>0[xX][0-9a-fA-F_]+|0[bB][01_]+|[0-9][0-9_]*(?:\.[0-9]+)?)|(?P<id>[A-Za-z_][A-Za-z0-9_]*)|(?P<op>" + "|".join(re.escape(o) for o in OPS) + ")",
    re.S)


def lex(text: str):
    toks = []  # (kind, value, line)
    line = 1
    pos = 0

    def semi_ok():
        if not toks:
            return False
        k, v, _ = toks[-1]
        return k in ("id", "num", "str", "raw", "chr") and v not in KEYWORDS - {"break", "continue", "fallthrough", "return"} or (k == "op" and v in ("++", "--", ")", "]", "}"))

    while pos < len(text):
        m = TOKEN_RE.match(text, pos)
        if not m:
            raise GoSyntaxError("line %d: cannot lex %r" % (line, text[pos:pos + 20]))
        pos = m.end()
        kind = m.lastgroup
        val = m.group(kind)
        if kind == "ws":
            continue
        if kind == "nl" or kind == "lc":
            if kind == "nl" or True:
                if semi_ok():
                    toks.append(("op", ";", line))
            if kind == "nl":
                line += 1
            continue
        if kind == "bc":
            line += val.count("\n")
            continue
        if kind == "raw":
            line += val.count("\n")
        if kind == "id" and val in KEYWORDS:
            toks.append(("kw", val, line))
        else:
            toks.append((kind, val, line))
    if semi_ok():
        toks.append(("op", ";", line))
    toks.append(("eof", "", line))
    return toks


def unquote(lit: str) -> str:
    if lit.startswith("`"):
        return lit[1:-1]
    s, i, out = lit[1:-1], 0, []
    esc = {"n": "\n", "t": "\t", "r": "\r", "\\": "\\", '"': '"', "'": "'", "a": "\a", "b": "\b", "f": "\f", "v": "\v"}
    while i < len(s):
        if s[i] == "\\":
            i += 1
            if s[i] in esc:
                out.append(esc[s[i]])
            elif s[i] == "x":
                out.append(chr(int(s[i + 1:i + 3], 16)))
                i += 2
            else:
                raise GoSyntaxError("unknown escape \\%s" % s[i])
        else:
            out.append(s[i])
        i += 1
    return "".join(out)


# AST nodes are tuples: (kind, ...)
BINPREC = {"||": 1, "&&": 2, "==": 3, "!=": 3, "<": 3, "<=": 3, ">": 3, ">=": 3, "+": 4, "-": 4, "|": 4, "^": 4,
           "*": 5, "/": 5, "%": 5, "<<": 5, ">>": 5, "&": 5, "&^": 5}


class Parser:
    def __init__(self, text: str):
        self.toks = lex(text)
        self.i = 0
        self.no_lit = 0  # composite literals are not allowed in if/switch/for headers

    def peek(self, k=0):
        return self.toks[min(self.i + k, len(self.toks) - 1)]

    def at(self, val, kind=None):
        t = self.peek()
        return t[1] == val and (kind is None or t[0] == kind) and t[0] in ("op", "kw")

    def take(self):
        t = self.toks[self.i]
        self.i += 1
        return t

    def expect(self, val):
        t = self.take()
        if t[1] != val or t[0] not in ("op", "kw"):
            raise GoSyntaxError("line %d: expected %r, found %r" % (t[2], val, t[1]))
        return t

    def ident(self):
        t = self.take()
        if t[0] != "id":
            raise GoSyntaxError("line %d: expected identifier, found %r" % (t[2], t[1]))
        return t[1]

    def skip_semis(self):
        while self.at(";"):
            self.take()

    # ---------------------------------------------------------------- file
    def file(self):
        self.skip_semis()
        self.expect("package")
        pkg = self.ident()
        self.skip_semis()
        decls = []
        imports = []
        while self.at("import"):
            self.take()
            if self.at("("):
                self.take()
                self.skip_semis()
                while not self.at(")"):
                    imports.append(self.import_spec())
                    self.skip_semis()
                self.expect(")")
            else:
                imports.append(self.import_spec())
            self.skip_semis()
        while self.peek()[0] != "eof":
            decls.extend(self.top_decl())
            self.skip_semis()
        return dict(package=pkg, imports=imports, decls=decls)

    def import_spec(self):
        name = None
        if self.peek()[0] == "id" or self.at(".") or (self.peek()[0] == "id" and self.peek()[1] == "_"):
            name = self.take()[1]
        t = self.take()
        if t[0] not in ("str", "raw"):
            raise GoSyntaxError("line %d: import path expected" % t[2])
        return (name, unquote(t[1]), t[2])

    def top_decl(self):
        t = self.peek()
        if self.at("type"):
            return self.group("type", self.type_spec)
        if self.at("const"):
            return self.const_decl()
        if self.at("var"):
            return self.group("var", self.var_spec)
        if self.at("func"):
            return [self.func_decl()]
        raise GoSyntaxError("line %d: unexpected %r at top level" % (t[2], t[1]))

    def group(self, kw, spec):
        self.expect(kw)
        out = []
        if self.at("("):
            self.take()
            self.skip_semis()
            while not self.at(")"):
                out.append(spec())
                self.skip_semis()
            self.expect(")")
        else:
            out.append(spec())
        return out

    def type_spec(self):
        line = self.peek()[2]
        name = self.ident()
        if self.at("="):
            self.take()
        return ("type", name, self.type_(), line)

    def const_decl(self):
        self.expect("const")
        out = []
        if self.at("("):
            self.take()
            self.skip_semis()
            last_t, last_e, iota = None, None, 0
            while not self.at(")"):
                line = self.peek()[2]
                names = [self.ident()]
                while self.at(","):
                    self.take()
                    names.append(self.ident())
                t, e = None, None
                if not self.at("=") and not self.at(";"):
                    t = self.type_()
                if self.at("="):
                    self.take()
                    e = [self.expr()]
                    while self.at(","):
                        self.take()
                        e.append(self.expr())
                    last_t, last_e = t, e
                else:
                    t, e = last_t, last_e
                for k, n in enumerate(names):
                    out.append(("const", n, t, e[k] if e else None, line, iota))
                iota += 1
                self.skip_semis()
            self.expect(")")
        else:
            line = self.peek()[2]
            name = self.ident()
            t = None
            if not self.at("="):
                t = self.type_()
            self.expect("=")
            out.append(("const", name, t, self.expr(), line, 0))
        return out

    def var_spec(self):
        line = self.peek()[2]
        names = [self.ident()]
        while self.at(","):
            self.take()
            names.append(self.ident())
        t, e = None, None
        if not self.at("="):
            t = self.type_()
        if self.at("="):
            self.take()
            e = self.expr()
            while self.at(","):
                self.take()
                self.expr()
        return ("var", names, t, e, line)

    def func_decl(self):
        line = self.expect("func")[2]
        recv = None
        if self.at("("):
            self.take()
            rname = None
            if self.peek()[0] == "id" and not (self.peek(1)[1] in (")", ".")):
                rname = self.ident()
            rtype = self.type_()
            self.expect(")")
            recv = (rname, rtype)
        name = self.ident()
        params = self.params()
        results = []
        if self.at("("):
            results = self.params()
        elif not self.at("{") and not self.at(";"):
            results = [(None, self.type_())]
        body = None
        if self.at("{"):
            body = self.block()
        return ("func", name, recv, params, results, body, line)

    def params(self):
        self.expect("(")
        out = []
        while not self.at(")"):
            # either "name Type", "a, b Type" or just "Type"
            start = self.i
            names = []
            if self.peek()[0] == "id":
                save = self.i
                names = [self.ident()]
                while self.at(","):
                    self.take()
                    if self.peek()[0] != "id":
                        break
                    names.append(self.ident())
                if self.at(")") or self.at(",") or self.at("."):
                    # they were types
                    self.i = save
                    names = []
            t = self.type_()
            if names:
                for n in names:
                    out.append((n, t))
            else:
                out.append((None, t))
            if self.at(","):
                self.take()
        self.expect(")")
        return out

    # ---------------------------------------------------------------- types
    def type_(self):
        t = self.peek()
        if self.at("*"):
            self.take()
            return ("ptr", self.type_())
        if self.at("("):
            self.take()
            x = self.type_()
            self.expect(")")
            return x
        if self.at("["):
            self.take()
            if self.at("]"):
                self.take()
                return ("slice", self.type_())
            n = self.expr()
            self.expect("]")
            return ("array", n, self.type_())
        if self.at("struct"):
            self.take()
            self.expect("{")
            fields = []
            self.skip_semis()
            while not self.at("}"):
                line = self.peek()[2]
                names = [self.ident()]
                while self.at(","):
                    self.take()
                    names.append(self.ident())
                ft = self.type_()
                tag = None
                if self.peek()[0] in ("str", "raw"):
                    tag = unquote(self.take()[1])
                for n in names:
                    fields.append((n, ft, tag, line))
                self.skip_semis()
            self.expect("}")
            return ("struct", fields)
        if self.at("interface"):
            self.take()
            self.expect("{")
            depth = 1
            while depth:
                tk = self.take()
                if tk[1] == "{":
                    depth += 1
                elif tk[1] == "}":
                    depth -= 1
                elif tk[0] == "eof":
                    raise GoSyntaxError("unterminated interface")
            return ("interface",)
        if self.at("func"):
            self.take()
            ps = self.params()
            rs = []
            if self.at("("):
                rs = self.params()
            elif self.peek()[0] == "id" or self.at("*") or self.at("["):
                rs = [(None, self.type_())]
            return ("functype", ps, rs)
        if self.at("map"):
            self.take()
            self.expect("[")
            k = self.type_()
            self.expect("]")
            return ("map", k, self.type_())
        if t[0] == "id":
            name = self.ident()
            if self.at(".") and self.peek(1)[0] == "id":
                self.take()
                return ("qual", name, self.ident())
            return ("name", name)
        raise GoSyntaxError("line %d: type expected, found %r" % (t[2], t[1]))

    # ---------------------------------------------------------------- statements
    def block(self):
        self.expect("{")
        saved = self.no_lit
        self.no_lit = 0
        out = []
        self.skip_semis()
        while not self.at("}"):
            out.append(self.stmt())
            self.skip_semis()
        self.expect("}")
        self.no_lit = saved
        return out

    def simple_stmt(self):
        line = self.peek()[2]
        lhs = [self.expr()]
        while self.at(","):
            self.take()
            lhs.append(self.expr())
        t = self.peek()
        if t[0] == "op" and t[1] in ("=", ":=", "+=", "-=", "*=", "/=", "%=", "&=", "|=", "^=", "<<=", ">>=", "&^="):
            op = self.take()[1]
            if self.at("range"):
                self.take()
                return ("assign", op, lhs, [("range", self.expr())], line)
            rhs = [self.expr()]
            while self.at(","):
                self.take()
                rhs.append(self.expr())
            return ("assign", op, lhs, rhs, line)
        if t[0] == "op" and t[1] in ("++", "--"):
            self.take()
            return ("incdec", t[1], lhs[0], line)
        return ("expr", lhs[0], line)

    def stmt(self):
        t = self.peek()
        line = t[2]
        if self.at("return"):
            self.take()
            vals = []
            if not self.at(";") and not self.at("}"):
                vals.append(self.expr())
                while self.at(","):
                    self.take()
                    vals.append(self.expr())
            return ("return", vals, line)
        if self.at("if"):
            self.take()
            self.no_lit += 1
            init = None
            cond = self.simple_stmt()
            if self.at(";"):
                self.take()
                init = cond
                cond = self.simple_stmt()
            self.no_lit -= 1
            then = self.block()
            els = None
            if self.at("else"):
                self.take()
                els = [self.stmt()] if self.at("if") else self.block()
            return ("if", init, cond[1], then, els, line)
        if self.at("switch"):
            self.take()
            self.no_lit += 1
            tag = None
            if not self.at("{"):
                tag = self.simple_stmt()[1]
            self.no_lit -= 1
            self.expect("{")
            cases = []
            self.skip_semis()
            while not self.at("}"):
                if self.at("case"):
                    self.take()
                    vals = [self.expr()]
                    while self.at(","):
                        self.take()
                        vals.append(self.expr())
                else:
                    self.expect("default")
                    vals = None
                self.expect(":")
                body = []
                self.skip_semis()
                while not (self.at("case") or self.at("default") or self.at("}")):
                    body.append(self.stmt())
                    self.skip_semis()
                cases.append((vals, body))
            self.expect("}")
            return ("switch", tag, cases, line)
        if self.at("for"):
            self.take()
            self.no_lit += 1
            init = cond = post = None
            if not self.at("{"):
                if self.at(";"):
                    pass
                elif self.at("range"):
                    self.take()
                    init = ("assign", "=", [], [("range", self.expr())], self.peek()[2])
                else:
                    first = self.simple_stmt()
                    if self.at("{"):
                        if first[0] == "assign" and first[3] and first[3][0][0] == "range":
                            init = first
                        else:
                            cond = first[1]
                        first = None
                    else:
                        init = first
                if self.at(";"):
                    self.take()
                    if not self.at(";"):
                        cond = self.simple_stmt()[1]
                    self.expect(";")
                    if not self.at("{"):
                        post = self.simple_stmt()
            self.no_lit -= 1
            body = self.block()
            return ("for", init, cond, post, body, line)
        if self.at("defer") or self.at("go"):
            kw = self.take()[1]
            return (kw, self.expr(), line)
        if self.at("var"):
            return ("vardecl", self.group("var", self.var_spec), line)
        if self.at("const"):
            return ("constdecl", self.const_decl(), line)
        if self.at("{"):
            return ("block", self.block(), line)
        if self.at("break") or self.at("continue") or self.at("fallthrough"):
            return (self.take()[1], line)
        return self.simple_stmt()

    # ---------------------------------------------------------------- expressions
    def expr(self, prec=1):
        left = self.unary()
        while True:
            t = self.peek()
            if t[0] != "op" or t[1] not in BINPREC or BINPREC[t[1]] < prec:
                return left
            op = self.take()[1]
            right = self.expr(BINPREC[op] + 1)
            left = ("bin", op, left, right)

    def unary(self):
        t = self.peek()
        if t[0] == "op" and t[1] in ("-", "+", "!", "^", "&", "*", "<-"):
            self.take()
            return ("un", t[1], self.unary())
        return self.primary()

    def primary(self):
        t = self.peek()
        if t[0] == "num":
            self.take()
            return ("int", int(t[1].replace("_", ""), 0) if "." not in t[1] else float(t[1]))
        if t[0] in ("str", "raw"):
            self.take()
            return ("str", unquote(t[1]))
        if t[0] == "chr":
            self.take()
            return ("int", ord(unquote('"' + t[1][1:-1] + '"')))
        if self.at("("):
            self.take()
            saved = self.no_lit
            self.no_lit = 0
            if self.at("*") or self.at("["):
                # maybe a parenthesised type for a conversion: (*T)(x)
                save = self.i
                try:
                    ty = self.type_()
                    self.expect(")")
                    x = ("typeexpr", ty)
                    self.no_lit = saved
                    return self.postfix(x)
                except GoSyntaxError:
                    self.i = save
            e = self.expr()
            self.expect(")")
            self.no_lit = saved
            return self.postfix(("paren", e))
        if self.at("[") or self.at("struct") or self.at("map"):
            ty = self.type_()
            return self.postfix(("typeexpr", ty))
        if self.at("func"):
            self.take()
            ps = self.params()
            rs = []
            if self.at("("):
                rs = self.params()
            elif not self.at("{"):
                rs = [(None, self.type_())]
            body = self.block()
            return self.postfix(("funclit", ps, rs, body))
        if t[0] == "id":
            self.take()
            return self.postfix(("id", t[1], t[2]))
        raise GoSyntaxError("line %d: expression expected, found %r" % (t[2], t[1]))

    def postfix(self, x):
        while True:
            if self.at("."):
                self.take()
                if self.at("("):
                    self.take()
                    ty = self.type_() if not self.at("type") else self.take()
                    self.expect(")")
                    x = ("assert", x, ty)
                else:
                    x = ("sel", x, self.ident())
            elif self.at("["):
                self.take()
                if self.at(":"):
                    self.take()
                    hi = None if self.at("]") else self.expr()
                    self.expect("]")
                    x = ("slice", x, None, hi)
                    continue
                i = self.expr()
                if self.at(":"):
                    self.take()
                    hi = None if self.at("]") else self.expr()
                    self.expect("]")
                    x = ("slice", x, i, hi)
                else:
                    self.expect("]")
                    x = ("index", x, i)
            elif self.at("("):
                self.take()
                saved = self.no_lit
                self.no_lit = 0
                args = []
                while not self.at(")"):
                    if self.at("[") or self.at("map") or self.at("struct") or self.at("*") and False:
                        args.append(("typeexpr", self.type_()))
                    else:
                        args.append(self.expr())
                    if self.at("..."):
                        self.take()
                    if self.at(","):
                        self.take()
                self.expect(")")
                self.no_lit = saved
                x = ("call", x, args)
            elif self.at("{") and self.no_lit == 0 and x[0] in ("id", "sel", "typeexpr"):
                # composite literal T{...}
                self.take()
                elems = []
                self.skip_semis()
                while not self.at("}"):
                    k = None
                    v = self.lit_value()
                    if self.at(":"):
                        self.take()
                        k, v = v, self.lit_value()
                    elems.append((k, v))
                    if self.at(","):
                        self.take()
                    self.skip_semis()
                self.expect("}")
                x = ("lit", x, elems)
            else:
                return x

    def lit_value(self):
        if self.at("{"):
            self.take()
            elems = []
            self.skip_semis()
            while not self.at("}"):
                k = None
                v = self.lit_value()
                if self.at(":"):
                    self.take()
                    k, v = v, self.lit_value()
                elems.append((k, v))
                if self.at(","):
                    self.take()
                self.skip_semis()
            self.expect("}")
            return ("lit", None, elems)
        return self.expr()


def parse(text: str):
    return Parser(text).file()


# ------------------------------------------------------------------------- static checks
PREDECLARED = {"bool", "byte", "complex64", "complex128", "error", "float32", "float64", "int", "int8", "int16", "int32", "int64", "rune", "string",
               "uint", "uint8", "uint16", "uint32", "uint64", "uintptr", "true", "false", "iota", "nil", "append", "cap", "close", "complex", "copy",
               "delete", "imag", "len", "make", "new", "panic", "print", "println", "real", "recover", "any", "min", "max", "_"}


def static_check(ast) -> List[str]:
    """Statically checkable part of C10 for one Go file (package-level view):
    identifiers declared / qualified by an import, every import used, no duplicate top-level
    declaration, no struct type with a field and a method of the same name."""
    problems = []
    imports = {}
    for name, path, line in ast["imports"]:
        local = name or path.rstrip("/").split("/")[-1]
        if local in imports:
            problems.append("import name %s declared twice" % local)
        imports[local] = [path, 0]
    top = {}
    methods: Dict[str, set] = {}
    for d in ast["decls"]:
        if d[0] == "func" and d[2] is not None:
            rt = d[2][1]
            while rt[0] == "ptr":
                rt = rt[1]
            rn = rt[1] if rt[0] == "name" else None
            if rn:
                if d[1] in methods.setdefault(rn, set()):
                    problems.append("method %s.%s declared twice" % (rn, d[1]))
                methods[rn].add(d[1])
            continue
        names = [d[1]] if d[0] in ("type", "const", "func") else d[1]
        for n in names:
            if n == "_":
                continue
            if n in top:
                problems.append("%s redeclared at top level (line %s)" % (n, d[-1] if d[0] != "const" else d[4]))
            if n in imports:
                problems.append("%s collides with an import name" % n)
            top[n] = d
    for d in ast["decls"]:
        if d[0] == "type" and d[2][0] == "struct":
            fnames = [f[0] for f in d[2][1]]
            for f in set(fnames):
                if fnames.count(f) > 1:
                    problems.append("struct %s: field %s declared twice" % (d[1], f))
                if f in methods.get(d[1], ()):
                    problems.append("struct %s has both a field and a method named %s" % (d[1], f))

    def use_type(t, scope):
        if t is None:
            return
        k = t[0]
        if k == "name":
            if t[1] not in scope and t[1] not in top and t[1] not in PREDECLARED:
                problems.append("undeclared type %s" % t[1])
        elif k == "qual":
            if t[1] in imports:
                imports[t[1]][1] += 1
            else:
                problems.append("type %s.%s: %s is not an imported package" % (t[1], t[2], t[1]))
        elif k in ("ptr", "slice"):
            use_type(t[1], scope)
        elif k == "array":
            use_expr(t[1], scope)
            use_type(t[2], scope)
        elif k == "struct":
            for f in t[1]:
                use_type(f[1], scope)
        elif k == "map":
            use_type(t[1], scope)
            use_type(t[2], scope)
        elif k == "functype":
            for _, pt in t[1] + t[2]:
                use_type(pt, scope)

    def use_expr(e, scope):
        if e is None:
            return
        k = e[0]
        if k == "id":
            n = e[1]
            if n in scope or n in top or n in PREDECLARED:
                return
            if n in imports:
                imports[n][1] += 1
                return
            problems.append("undeclared identifier %s (line %s)" % (n, e[2]))
        elif k in ("int", "str"):
            return
        elif k == "bin":
            use_expr(e[2], scope)
            use_expr(e[3], scope)
        elif k == "un":
            use_expr(e[2], scope)
        elif k == "paren":
            use_expr(e[1], scope)
        elif k == "sel":
            if e[1][0] == "id" and e[1][1] in imports and e[1][1] not in scope:
                imports[e[1][1]][1] += 1
            else:
                use_expr(e[1], scope)
        elif k == "index":
            use_expr(e[1], scope)
            use_expr(e[2], scope)
        elif k == "slice":
            use_expr(e[1], scope)
            use_expr(e[2], scope)
            use_expr(e[3], scope)
        elif k == "call":
            use_expr(e[1], scope)
            for a in e[2]:
                use_expr(a, scope)
        elif k == "lit":
            if e[1] is not None:
                use_expr(e[1], scope)
            for kk, v in e[2]:
                use_expr(v, scope)  # keys of struct literals are field names
        elif k == "typeexpr":
            use_type(e[1], scope)
        elif k == "assert":
            use_expr(e[1], scope)
        elif k == "range":
            use_expr(e[1], scope)
        elif k == "funclit":
            sc = set(scope) | set(n for n, _ in e[1] if n)
            use_block(e[3], sc)

    def use_stmt(s, scope):
        k = s[0]
        if k == "assign":
            for r in s[3]:
                use_expr(r, scope)
            if s[1] == ":=":
                for l in s[2]:
                    if l[0] == "id":
                        scope.add(l[1])
            else:
                for l in s[2]:
                    use_expr(l, scope)
        elif k == "incdec":
            use_expr(s[2], scope)
        elif k == "expr":
            use_expr(s[1], scope)
        elif k == "return":
            for v in s[1]:
                use_expr(v, scope)
        elif k == "if":
            sc = set(scope)
            if s[1]:
                use_stmt(s[1], sc)
            use_expr(s[2], sc)
            use_block(s[3], set(sc))
            if s[4]:
                use_block(s[4], set(sc))
        elif k == "switch":
            use_expr(s[1], scope)
            for vals, body in s[2]:
                for v in vals or ():
                    use_expr(v, scope)
                use_block(body, set(scope))
        elif k == "for":
            sc = set(scope)
            if s[1]:
                use_stmt(s[1], sc)
            use_expr(s[2], sc)
            if s[3]:
                use_stmt(s[3], sc)
            use_block(s[4], sc)
        elif k in ("defer", "go"):
            use_expr(s[1], scope)
        elif k == "vardecl":
            for v in s[1]:
                use_type(v[2], scope)
                use_expr(v[3], scope)
                scope.update(v[1])
        elif k == "constdecl":
            for c in s[1]:
                use_expr(c[3], scope)
                scope.add(c[1])
        elif k == "block":
            use_block(s[1], set(scope))

    def use_block(b, scope):
        for s in b or ():
            use_stmt(s, scope)

    for d in ast["decls"]:
        if d[0] == "type":
            use_type(d[2], set())
        elif d[0] == "const":
            use_type(d[2], set())
            use_expr(d[3], set())
        elif d[0] == "var":
            use_type(d[2], set())
            use_expr(d[3], set())
        elif d[0] == "func":
            scope = set()
            if d[2]:
                if d[2][0]:
                    scope.add(d[2][0])
                use_type(d[2][1], scope)
            for n, t in d[3] + d[4]:
                if n:
                    scope.add(n)
                use_type(t, scope)
            use_block(d[5], scope)
    for local, (path, used) in imports.items():
        if used == 0 and local != "_":
            problems.append('import "%s" (as %s) is not used' % (path, local))
    return problems


# -------------------------------------------------------------------------- typed evaluation
INT_TYPES = {"int8": (8, True), "int16": (16, True), "int32": (32, True), "int64": (64, True), "int": (64, True),
             "uint8": (8, False), "uint16": (16, False), "uint32": (32, False), "uint64": (64, False), "uint": (64, False),
             "byte": (8, False), "uintptr": (64, False), "rune": (32, True)}


class V:
    """A typed Go value: t = type name ('untyped', 'bool', 'int8', ... or a named type), v = Python value."""
    __slots__ = ("t", "v")

    def __init__(self, t, v):
        self.t = t
        self.v = v

    def __repr__(self):
        return "%s(%r)" % (self.t, self.v)


class Machine:
    def __init__(self, ast):
        self.ast = ast
        self.types = {}
        self.funcs = {}
        self.methods = {}
        self.consts = {}
        for d in ast["decls"]:
            if d[0] == "type":
                self.types[d[1]] = d[2]
            elif d[0] == "func":
                if d[2] is None:
                    self.funcs[d[1]] = d
                else:
                    rt = d[2][1]
                    while rt[0] == "ptr":
                        rt = rt[1]
                    self.methods[(rt[1], d[1])] = d
            elif d[0] == "const":
                self.consts[d[1]] = d

    # -- types
    def underlying(self, tname):
        seen = set()
        while tname in self.types and tname not in seen:
            seen.add(tname)
            t = self.types[tname]
            if t[0] == "name":
                tname = t[1]
            else:
                return t
        return ("name", tname)

    def int_info(self, tname):
        u = self.underlying(tname)
        if u[0] == "name" and u[1] in INT_TYPES:
            return INT_TYPES[u[1]]
        return None

    def wrap(self, tname, x):
        if tname == "untyped":
            return V("untyped", x)
        info = self.int_info(tname)
        if info is None:
            if self.underlying(tname) == ("name", "bool"):
                return V(tname, bool(x))
            raise GoEvalError("not an integer type: %s" % tname)
        bits, signed = info
        x &= (1 << bits) - 1
        if signed and x >> (bits - 1):
            x -= 1 << bits
        return V(tname, x)

    def zero(self, t):
        k = t[0]
        if k == "name":
            n = t[1]
            if n in INT_TYPES:
                return V(n, 0)
            if n == "bool":
                return V("bool", False)
            if n == "string":
                return V("string", "")
            if n in self.types:
                u = self.types[n]
                if u[0] == "name":
                    z = self.zero(u)
                    return V(n, z.v) if isinstance(z, V) else z
                z = self.zero(u)
                if isinstance(z, dict):
                    z["__type__"] = n
                return z
            raise GoEvalError("zero of unknown type %s" % n)
        if k == "array":
            n = self.eval(t[1], {}).v
            return [self.zero(t[2]) for _ in range(n)]
        if k == "struct":
            return dict((f[0], self.zero(f[1])) for f in t[1])
        if k == "slice":
            return []
        if k == "ptr":
            return None
        raise GoEvalError("zero of %r" % (t,))

    # -- expressions
    def binop(self, op, a: V, b: V):
        if op in ("<<", ">>"):
            cnt = b.v
            if cnt < 0:
                raise GoEvalError("negative shift count")
            if a.t == "untyped":
                return V("untyped", a.v << cnt if op == "<<" else a.v >> cnt)
            return self.wrap(a.t, a.v << cnt if op == "<<" else a.v >> cnt)  # Python >> on negative ints is arithmetic, as in Go for signed
        t = a.t if a.t != "untyped" else b.t
        if a.t != "untyped" and b.t != "untyped" and a.t != b.t:
            # Go rejects mixed types; identical underlying names written differently (byte/uint8) are the same type
            if {a.t, b.t} != {"byte", "uint8"}:
                raise GoEvalError("mismatched types %s and %s for %s" % (a.t, b.t, op))
        if op in ("==", "!=", "<", "<=", ">", ">="):
            r = {"==": a.v == b.v, "!=": a.v != b.v, "<": a.v < b.v, "<=": a.v <= b.v, ">": a.v > b.v, ">=": a.v >= b.v}[op]
            return V("bool", r)
        if op in ("&&", "||"):
            return V("bool", (a.v and b.v) if op == "&&" else (a.v or b.v))
        if op == "/":
            if b.v == 0:
                raise GoEvalError("division by zero")
            q = abs(a.v) // abs(b.v)
            r = q if (a.v < 0) == (b.v < 0) else -q
        elif op == "%":
            r = abs(a.v) % abs(b.v)
            r = r if a.v >= 0 else -r
        else:
            r = {"+": a.v + b.v, "-": a.v - b.v, "*": a.v * b.v, "&": a.v & b.v, "|": a.v | b.v, "^": a.v ^ b.v, "&^": a.v & ~b.v}[op]
        if t == "untyped":
            return V("untyped", r)
        if self.int_info(t) is None and isinstance(r, str):
            return V(t, r)
        # an untyped constant operand must be representable in the typed operand's type
        for x, y in ((a, b), (b, a)):
            if x.t == "untyped" and y.t != "untyped" and self.int_info(y.t):
                bits, signed = self.int_info(y.t)
                lo, hi = (-(1 << (bits - 1)), (1 << (bits - 1)) - 1) if signed else (0, (1 << bits) - 1)
                if not (lo <= x.v <= hi):
                    raise GoEvalError("constant %d overflows %s" % (x.v, y.t))
        return self.wrap(t, r)

    def convert(self, tname, x):
        if isinstance(x, V):
            if tname == "string":
                return V("string", x.v)
            u = self.underlying(tname)
            if u == ("name", "bool"):
                return V(tname, bool(x.v))
            return self.wrap(tname, int(x.v))
        return x

    def lvalue(self, e, env):
        """Returns (container, key) for assignable expressions."""
        k = e[0]
        if k == "paren":
            return self.lvalue(e[1], env)
        if k == "id":
            return env, e[1]
        if k == "sel":
            base = self.eval(e[1], env)
            if isinstance(base, tuple) and base[0] == "ptrto":
                base = base[1][base[2]]
            return base, e[2]
        if k == "index":
            base = self.eval(e[1], env)
            idx = self.eval(e[2], env).v
            if not (0 <= idx < len(base)):
                raise GoEvalError("index %d out of range [0,%d)" % (idx, len(base)))
            return base, idx
        if k == "un" and e[1] == "*":
            p = self.eval(e[2], env)
            if isinstance(p, tuple) and p[0] == "ptrto":
                return p[1], p[2]
            return {"x": p}, "x"
        raise GoEvalError("not assignable: %r" % (e,))

    def eval(self, e, env):
        k = e[0]
        if k == "int":
            return V("untyped", e[1])
        if k == "str":
            return V("string", e[1])
        if k == "paren":
            return self.eval(e[1], env)
        if k == "id":
            n = e[1]
            if n in env:
                return env[n]
            if n == "true":
                return V("bool", True)
            if n == "false":
                return V("bool", False)
            if n == "nil":
                return None
            if n in self.consts:
                c = self.consts[n]
                v = self.eval(c[3], {"iota": V("untyped", c[5])})
                if c[2] is not None and c[2][0] == "name":
                    return self.convert(c[2][1], v)
                return v
            raise GoEvalError("unknown identifier %s" % n)
        if k == "bin":
            if e[1] in ("&&", "||"):
                a = self.eval(e[2], env)
                if (e[1] == "&&" and not a.v) or (e[1] == "||" and a.v):
                    return V("bool", bool(a.v))
                return V("bool", bool(self.eval(e[3], env).v))
            return self.binop(e[1], self.eval(e[2], env), self.eval(e[3], env))
        if k == "un":
            if e[1] == "&":
                if e[2][0] == "lit":
                    return self.eval(e[2], env)
                c, key = self.lvalue(e[2], env)
                return ("ptrto", c, key)
            if e[1] == "*":
                p = self.eval(e[2], env)
                if isinstance(p, tuple) and p[0] == "ptrto":
                    return p[1][p[2]]
                return p
            a = self.eval(e[2], env)
            if e[1] == "-":
                return V(a.t, -a.v) if a.t == "untyped" else self.wrap(a.t, -a.v)
            if e[1] == "+":
                return a
            if e[1] == "!":
                return V("bool", not a.v)
            if e[1] == "^":
                return V("untyped", ~a.v) if a.t == "untyped" else self.wrap(a.t, ~a.v)
        if k == "sel":
            base = self.eval(e[1], env)
            if isinstance(base, tuple) and base[0] == "ptrto":
                base = base[1][base[2]]
            if isinstance(base, dict):
                if e[2] not in base:
                    raise GoEvalError("no field %s" % e[2])
                return base[e[2]]
            raise GoEvalError("selector %s on %r" % (e[2], type(base)))
        if k == "index":
            base = self.eval(e[1], env)
            idx = self.eval(e[2], env).v
            if not (0 <= idx < len(base)):
                raise GoEvalError("index %d out of range [0,%d)" % (idx, len(base)))
            return base[idx]
        if k == "call":
            f = e[1]
            while f[0] == "paren":
                f = f[1]
            args = e[2]
            if f[0] == "id":
                n = f[1]
                if n in INT_TYPES or n == "bool" or (n in self.types and n not in env):
                    return self.convert(n, self.eval(args[0], env))
                if n == "make":
                    size = self.eval(args[1], env).v
                    elem = args[0][1][1] if args[0][0] == "typeexpr" else ("name", "byte")
                    return [self.zero(elem) for _ in range(size)]
                if n == "len":
                    return V("int", len(self.eval(args[0], env)))
                if n in self.funcs:
                    return self.call(self.funcs[n], None, [self.eval(a, env) for a in args])
                raise GoEvalError("call of unknown function %s" % n)
            if f[0] == "typeexpr":
                return self.eval(args[0], env)
            if f[0] == "sel":
                recv = self.eval(f[1], env)
                target = recv
                if isinstance(target, tuple) and target[0] == "ptrto":
                    target = target[1][target[2]]
                tname = target.get("__type__") if isinstance(target, dict) else (target.t if isinstance(target, V) else None)
                m = self.methods.get((tname, f[2]))
                if m is None:
                    raise GoEvalError("no method %s on %s" % (f[2], tname))
                return self.call(m, target, [self.eval(a, env) for a in args])
            raise GoEvalError("unsupported call %r" % (f,))
        if k == "lit":
            t = e[1]
            if t is not None and t[0] == "id" and t[1] in self.types:
                return self.zero(("name", t[1]))
            raise GoEvalError("unsupported composite literal")
        raise GoEvalError("unsupported expression %r" % (k,))

    class Return(Exception):
        def __init__(self, vals):
            self.vals = vals

    def call(self, fdecl, recv, args):
        env = {}
        if fdecl[2] and fdecl[2][0]:
            env[fdecl[2][0]] = recv
        for (n, t), a in zip(fdecl[3], args):
            if n:
                if isinstance(a, V) and a.t == "untyped" and t[0] == "name":
                    a = self.convert(t[1], a)
                env[n] = a
        try:
            self.exec_block(fdecl[5], env)
        except Machine.Return as r:
            if not r.vals:
                return None
            v = r.vals[0]
            if isinstance(v, V) and v.t == "untyped" and fdecl[4] and fdecl[4][0][1][0] == "name":
                v = self.convert(fdecl[4][0][1][1], v)
            return v
        return None

    def exec_block(self, stmts, env):
        for s in stmts:
            self.exec(s, env)

    def assign_value(self, target_old, val):
        """Assigning an untyped constant / a value to a typed slot."""
        if isinstance(target_old, V) and isinstance(val, V):
            if val.t == "untyped":
                return self.convert(target_old.t, val)
            if target_old.t != "untyped" and val.t != target_old.t and {val.t, target_old.t} != {"byte", "uint8"}:
                raise GoEvalError("cannot assign %s to %s" % (val.t, target_old.t))
        return val

    def exec(self, s, env):
        k = s[0]
        if k == "assign":
            op, lhs, rhs = s[1], s[2], s[3]
            if op == ":=":
                vals = [self.eval(r, env) for r in rhs]
                for l, v in zip(lhs, vals):
                    if isinstance(v, V) and v.t == "untyped":
                        v = V("int", v.v)
                    env[l[1]] = v
                return
            if op == "=":
                vals = [self.eval(r, env) for r in rhs]
                for l, v in zip(lhs, vals):
                    c, key = self.lvalue(l, env)
                    old = c[key] if (isinstance(c, dict) and key in c) or isinstance(c, list) else None
                    c[key] = self.assign_value(old, v)
                return
            bop = op[:-1]
            c, key = self.lvalue(lhs[0], env)
            c[key] = self.binop(bop, c[key], self.eval(rhs[0], env))
            return
        if k == "incdec":
            c, key = self.lvalue(s[2], env)
            c[key] = self.binop("+" if s[1] == "++" else "-", c[key], V("untyped", 1))
            return
        if k == "expr":
            self.eval(s[1], env)
            return
        if k == "return":
            raise Machine.Return([self.eval(v, env) for v in s[1]])
        if k == "if":
            if s[1]:
                self.exec(s[1], env)
            if self.eval(s[2], env).v:
                self.exec_block(s[3], env)
            elif s[4]:
                self.exec_block(s[4], env)
            return
        if k == "switch":
            tag = self.eval(s[1], env) if s[1] is not None else V("bool", True)
            default = None
            for vals, body in s[2]:
                if vals is None:
                    default = body
                    continue
                for v in vals:
                    if self.eval(v, env).v == tag.v:
                        self.exec_block(body, env)
                        return
            if default is not None:
                self.exec_block(default, env)
            return
        if k == "for":
            if s[1]:
                self.exec(s[1], env)
            n = 0
            while s[2] is None or self.eval(s[2], env).v:
                self.exec_block(s[4], env)
                if s[3]:
                    self.exec(s[3], env)
                n += 1
                if n > 100000:
                    raise GoEvalError("loop bound")
            return
        if k == "block":
            self.exec_block(s[1], env)
            return
        if k == "vardecl":
            for v in s[1]:
                for n in v[1]:
                    env[n] = self.eval(v[3], env) if v[3] is not None else self.zero(v[2])
            return
        raise GoEvalError("unsupported statement %s" % k)
