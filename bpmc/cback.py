"""C back end: render C with the real compiler, generate a stand-alone harness from the IR
using only the documented names, build variants, drive the harness processes."""
import os
import re
import shutil
import struct
import subprocess
from typing import Any, Dict, List, Optional, Tuple

from . import bind, ref, scope
from .ir import ProtoFile, write_files
from .pyback import parse_file, renderer_classes, quiet_stderr

HERE = os.path.dirname(os.path.abspath(__file__))
CORE = os.path.join(HERE, "c", "harness_core.c")

VARIANTS = {
    # name: (compiler, flags, unity?, extra defines)
    "std-O0": ("gcc", ["-O0"], False),
    "std-O1": ("gcc", ["-O1"], False),
    "std-O2": ("gcc", ["-O2"], False),
    "std-O3": ("gcc", ["-O3"], False),
    "unity-O2": ("gcc", ["-O2"], True),
    "unity-O3": ("gcc", ["-O3"], True),
    "asan": ("clang", ["-O1", "-g", "-fsanitize=address,undefined", "-fno-sanitize=alignment",
                       "-fno-sanitize-recover=all", "-fno-omit-frame-pointer", "-DHARNESS_NO_SIGHANDLER"], False),
    "be": ("gcc", ["-O1", "-DBP_BIG_ENDIAN=1"], False),
}


class CBuildError(Exception):
    def __init__(self, stage, msg):
        super().__init__("%s: %s" % (stage, msg))
        self.stage = stage
        self.msg = msg


class HarnessFault(Exception):
    def __init__(self, msg, stderr=""):
        super().__init__(msg)
        self.stderr = stderr


def c_member_expr(leaf: ref.Leaf) -> str:
    out = []
    for kind, key in leaf.path:
        if kind == "f":
            out.append(("." if out else "") + key)
        elif kind == "i":
            out.append("[%d]" % key)
    return "".join(out)


def render_c_files(main_path: str, outdir: str, optimize=False, endian="both", filter_messages=None, lint=False) -> Dict[str, str]:
    """Compile main schema + every imported schema to C the way a user does (each file parsed
    on its own).  Returns {file name: text}."""
    out = {}
    seen = set()
    main = parse_file(main_path, traditional_mode=optimize)

    def rec(p, top):
        key = os.path.realpath(p.filepath)
        if key in seen:
            return
        seen.add(key)
        for _, child in p.protos(recursive=False):
            rec(child, False)
        q = p if top else parse_file(p.filepath, traditional_mode=optimize)
        if lint:
            from .pyback import lint_quietly
            lint_quietly(q)
        for cls in renderer_classes("c"):
            kw = {}
            if optimize:
                kw = dict(optimization_mode=True, optimization_mode_filter_messages=filter_messages,
                          optimization_mode_endian=endian)
            r = cls(q, outdir=outdir, **kw)
            text = r.render_string()
            with open(os.path.join(outdir, r.out_filename), "w") as f:
                f.write(text)
            out[r.out_filename] = text

    with quiet_stderr():
        rec(main, True)
    return out


BYTES_RE = re.compile(r"// Number of bytes to encode struct (\w+)\n#define (BYTES_LENGTH_\w+) (\d+)")


def bytes_length_macros(texts: Dict[str, str]) -> Dict[str, Tuple[str, int]]:
    m = {}
    for name, text in texts.items():
        if name.endswith(".h"):
            for s, macro, n in BYTES_RE.findall(text):
                m[s] = (macro, int(n))
    return m


def gen_harness(cases: List[scope.Case], main_header: str, macros, with_json=True) -> str:
    lines = ['#include <stddef.h>', '#include "bitproto.h"', '#include "%s"' % main_header,
             '#include "harness_core.c"', ""]
    rows = []
    for k, c in enumerate(cases):
        sname = c.msg.name
        leaves = ref.value_leaves(c.msg)
        offs = ["offsetof(struct %s, %s)" % (sname, c_member_expr(l)) for l in leaves] + ["0"]
        szs = ["sizeof(((struct %s *)0)->%s)" % (sname, c_member_expr(l)) for l in leaves] + ["0"]
        lines.append("static const uint32_t off_%d[] = {%s};" % (k, ", ".join(offs)))
        lines.append("static const uint32_t sz_%d[] = {%s};" % (k, ", ".join(szs)))
        macro = macros.get(sname, ("BYTES_LENGTH_MISSING_%s" % sname, 0))[0]
        rows.append('{"%s", sizeof(struct %s), %s, (endec_fn)Encode%s, (endec_fn)Decode%s, %s, %d, off_%d, sz_%d}' % (
            sname, sname, macro, sname, sname, ("(json_fn)Json%s" % sname) if with_json else "NULL", len(leaves), k, k))
    lines.append("struct Row rows[] = {\n  %s\n};" % ",\n  ".join(rows))
    lines.append("const unsigned NROWS = %d;" % len(rows))
    lines.append("int main(void) { return harness_main(); }")
    return "\n".join(lines) + "\n"


def run_cc(cmd, cwd, stage):
    r = subprocess.run(cmd, cwd=cwd, capture_output=True, text=True)
    if r.returncode != 0:
        raise CBuildError(stage, (r.stderr or r.stdout)[-3000:])
    return r


class CBatch:
    """One batch of cases rendered to C (one rendering mode) with harness executables per variant."""

    def __init__(self, cases: List[scope.Case], workdir: str, optimize=False, endian="both", stem="t"):
        self.cases = cases
        self.dir = workdir
        self.optimize = optimize
        self.endian = endian
        os.makedirs(workdir, exist_ok=True)
        self.batch = scope.make_batch(cases, stem)
        write_files(self.batch, workdir)
        self.texts = render_c_files(os.path.join(workdir, self.batch.filename), workdir, optimize, endian)
        self.macros = bytes_length_macros(self.texts)
        self.gen_c = sorted(n for n in self.texts if n.endswith(".c"))
        self.main_header = self.batch.stem + "_bp.h"
        with open(os.path.join(workdir, "harness.c"), "w") as f:
            f.write(gen_harness(cases, self.main_header, self.macros, with_json=not optimize))
        shutil.copy(CORE, os.path.join(workdir, "harness_core.c"))
        self.exes: Dict[str, str] = {}

    def build_be_emu(self) -> str:
        """Standard-mode generated code + runtime built for a big-endian host as a shared
        object + the sign-fix shim (DESIGN C06b).  The driver byte-reverses leaf storage."""
        exe = os.path.join(self.dir, "h_be_emu")
        inc = ["-I", self.dir, "-I", bind.CLIB_DIR]
        so = os.path.join(self.dir, "libbpbe.so")
        run_cc(["gcc", "-std=gnu11", "-w", "-O1", "-fPIC", "-shared", "-DBP_BIG_ENDIAN=1"] + inc +
               [os.path.join(bind.CLIB_DIR, "bitproto.c"), "-o", so], self.dir, "be:lib")
        srcs = [os.path.join(self.dir, g) for g in self.gen_c] + [os.path.join(self.dir, "harness.c")]
        run_cc(["gcc", "-std=gnu11", "-w", "-O1", "-DRT_BE_SHIM", "-DBP_BIG_ENDIAN=1"] + inc + srcs +
               ["-L", self.dir, "-lbpbe", "-ldl", "-Wl,-rpath," + self.dir, "-o", exe], self.dir, "be:harness")
        self.exes["be-emu"] = exe
        return exe

    def build(self, variant: str, extra_flags: Optional[List[str]] = None) -> str:
        if variant == "be-emu":
            return self.build_be_emu()
        cc, flags, unity = VARIANTS[variant]
        flags = list(flags) + list(extra_flags or [])
        exe = os.path.join(self.dir, "h_" + variant.replace("-", "_") + ("_x" if extra_flags else ""))
        inc = ["-I", self.dir, "-I", bind.CLIB_DIR]
        common = [cc, "-std=gnu11", "-w"] + flags + inc
        if unity:
            u = os.path.join(self.dir, "unity_%s.c" % variant.replace("-", "_"))
            with open(u, "w") as f:
                f.write('#include "%s"\n' % os.path.join(bind.CLIB_DIR, "bitproto.c"))
                for g in self.gen_c:
                    f.write('#include "%s"\n' % g)
                f.write('#include "harness.c"\n')
            run_cc(common + [u, "-o", exe], self.dir, "compile-unity")
        else:
            objs = []
            srcs = [os.path.join(bind.CLIB_DIR, "bitproto.c")] + [os.path.join(self.dir, g) for g in self.gen_c] + \
                   [os.path.join(self.dir, "harness.c")]
            for s in srcs:
                o = os.path.join(self.dir, "%s_%s.o" % (os.path.basename(s)[:-2], variant.replace("-", "_")))
                run_cc(common + ["-c", s, "-o", o], self.dir, "compile:" + os.path.basename(s))
                objs.append(o)
            run_cc([cc] + flags + objs + ["-o", exe], self.dir, "link")
        self.exes[variant] = exe
        return exe

    def harness(self, variant: str) -> "Harness":
        if variant not in self.exes:
            self.build(variant)
        return Harness(self.exes[variant], self.cases)


class Harness:
    def __init__(self, exe: str, cases: List[scope.Case]):
        env = dict(os.environ)
        env["ASAN_OPTIONS"] = "detect_leaks=0:abort_on_error=0:exitcode=71"
        env["UBSAN_OPTIONS"] = "halt_on_error=1:exitcode=72:print_stacktrace=1"
        self.p = subprocess.Popen([exe], stdin=subprocess.PIPE, stdout=subprocess.PIPE, stderr=subprocess.PIPE, env=env)
        self.cases = cases
        self.rows = []
        self.table()

    def _fail(self, what):
        try:
            self.p.stdin.close()
        except Exception:
            pass
        try:
            err = self.p.stderr.read().decode(errors="replace")
        except Exception:
            err = ""
        rc = self.p.wait()
        raise HarnessFault("%s (harness exit %s)" % (what, rc), err[-3000:])

    def _read(self, n):
        data = self.p.stdout.read(n)
        if len(data) != n:
            self._fail("short read %d/%d" % (len(data), n))
        return data

    def table(self):
        self.p.stdin.write(b"T")
        self.p.stdin.flush()
        rows = []
        while True:
            line = self.p.stdout.readline().decode()
            if not line:
                self._fail("no table")
            if line.strip() == "END":
                break
            parts = line.split()
            assert parts[0] == "ROW"
            nle = int(parts[5])
            leaves = [tuple(int(x) for x in p.split(":")) for p in parts[6:6 + nle]]
            rows.append(dict(name=parts[2], size=int(parts[3]), nbytes=int(parts[4]), leaves=leaves))
        self.rows = rows
        return rows

    def image(self, r: int, leaves: List[ref.Leaf], vec: List[int], fill=0xA5, order="little") -> bytes:
        row = self.rows[r]
        img = bytearray([fill]) * row["size"]
        for (off, sz), l, v in zip(row["leaves"], leaves, vec):
            img[off:off + sz] = (int(v) & ((1 << (8 * sz)) - 1)).to_bytes(sz, order)
        return bytes(img)

    def unimage(self, r: int, leaves: List[ref.Leaf], img: bytes, order="little") -> List[int]:
        row = self.rows[r]
        out = []
        for (off, sz), l in zip(row["leaves"], leaves):
            v = int.from_bytes(img[off:off + sz], order)
            if l.signed and v >> (8 * sz - 1):
                v -= 1 << (8 * sz)
            out.append(v)
        return out

    def _chunks(self, r, items):
        row = self.rows[r]
        per = max(row["size"], row["nbytes"]) + 1
        n = max(1, 16384 // per)
        for i in range(0, len(items), n):
            yield items[i:i + n]

    def encode_many(self, r: int, images: List[bytes]) -> List[Tuple[int, bytes]]:
        out = []
        for ch in self._chunks(r, images):
            out.extend(self._encode_chunk(r, ch))
        return out

    def decode_many(self, r: int, wires: List[bytes]) -> List[Tuple[int, bytes]]:
        out = []
        for ch in self._chunks(r, wires):
            out.extend(self._decode_chunk(r, ch))
        return out

    def _encode_chunk(self, r: int, images: List[bytes]) -> List[Tuple[int, bytes]]:
        row = self.rows[r]
        try:
            self.p.stdin.write(b"E" + struct.pack("<II", r, len(images)) + b"".join(images))
            self.p.stdin.flush()
        except BrokenPipeError:
            self._fail("encode: broken pipe")
        out = []
        for _ in images:
            d = self._read(1 + row["nbytes"])
            out.append((d[0], d[1:]))
        return out

    def _decode_chunk(self, r: int, wires: List[bytes]) -> List[Tuple[int, bytes]]:
        row = self.rows[r]
        try:
            self.p.stdin.write(b"D" + struct.pack("<II", r, len(wires)) + b"".join(wires))
            self.p.stdin.flush()
        except BrokenPipeError:
            self._fail("decode: broken pipe")
        out = []
        for _ in wires:
            d = self._read(1 + row["size"])
            out.append((d[0], d[1:]))
        return out

    def decode_long(self, r: int, wires: List[bytes]) -> List[Tuple[int, bytes]]:
        """Decode buffers longer than BYTES_LENGTH (all of one length): op 'X'."""
        row = self.rows[r]
        out = []
        if not wires:
            return out
        wl = len(wires[0])
        per = max(row["size"], wl) + 1
        n = max(1, 16384 // per)
        for i in range(0, len(wires), n):
            ch = wires[i:i + n]
            try:
                self.p.stdin.write(b"X" + struct.pack("<III", r, len(ch), wl) + b"".join(ch))
                self.p.stdin.flush()
            except BrokenPipeError:
                self._fail("decode_long: broken pipe")
            for _ in ch:
                d = self._read(1 + row["size"])
                out.append((d[0], d[1:]))
        return out

    def json(self, r: int, image: bytes) -> Tuple[str, bool]:
        try:
            self.p.stdin.write(b"J" + struct.pack("<I", r) + image)
            self.p.stdin.flush()
        except BrokenPipeError:
            self._fail("json: broken pipe")
        (n,) = struct.unpack("<I", self._read(4))
        if n == 0xFFFFFFFF:
            return None, True
        rc_ok = not (n & 0x80000000)
        n &= 0x7FFFFFFF
        return self._read(n).decode(errors="replace"), rc_ok

    def close(self):
        try:
            self.p.stdin.write(b"Q")
            self.p.stdin.close()
        except Exception:
            pass
        try:
            self.p.wait(timeout=5)
        except Exception:
            self.p.kill()
        for s in (self.p.stdout, self.p.stderr):
            try:
                s.close()
            except Exception:
                pass
