"""Evidence files, replay artefacts, known-findings matching, VIOLATION / KNOWN-FINDING lines."""
import base64
import hashlib
import json
import os
import pickle
import re
import sys
import time
from typing import Any, Dict, List, Optional

from . import bind
from .explore import Acc, seed

ROOT = os.path.dirname(os.path.dirname(os.path.abspath(__file__)))
EVIDENCE_DIR = os.path.join(ROOT, "evidence")
REPLAY_DIR = os.path.join(ROOT, "replays")
KNOWN_FILE = os.path.join(ROOT, "known_findings.jsonl")


def load_known() -> List[Dict[str, Any]]:
    out = []
    if os.path.exists(KNOWN_FILE):
        with open(KNOWN_FILE) as f:
            for line in f:
                line = line.strip()
                if line and not line.startswith("#"):
                    out.append(json.loads(line))
    return out


def matches(finding: Dict[str, Any], pid: str, v: Dict[str, Any]) -> bool:
    if finding.get("status") != "known":
        return False  # a fixed entry suppresses nothing
    if pid not in finding.get("properties", []):
        return False
    m = finding.get("match", {})
    if "check" in m and v.get("check") not in (m["check"] if isinstance(m["check"], list) else [m["check"]]):
        return False
    if "symptom" in m and v.get("symptom") not in (m["symptom"] if isinstance(m["symptom"], list) else [m["symptom"]]):
        return False
    if "site" in m and not re.fullmatch(m["site"], v.get("site") or ""):
        return False
    feats = set(v.get("features") or ())
    for f in m.get("features", []):
        if f not in feats:
            return False
    for f in m.get("not_features", []):
        if f in feats:
            return False
    if "detail" in m and not re.search(m["detail"], v.get("detail") or "", re.S):
        return False
    return True


def pack(obj) -> str:
    return base64.b64encode(pickle.dumps(obj)).decode()


def unpack(s: str):
    return pickle.loads(base64.b64decode(s))


def write_replay(pid: str, v: Dict[str, Any]) -> str:
    d = os.path.join(REPLAY_DIR, pid)
    os.makedirs(d, exist_ok=True)
    body = dict(v)
    body["property"] = pid
    body["repo_tree"] = bind.repo_tree_id()
    key = hashlib.sha256(json.dumps({k: body.get(k) for k in ("check", "symptom", "site", "desc", "detail")},
                                    sort_keys=True, default=str).encode()).hexdigest()[:16]
    path = os.path.join(d, key + ".json")
    with open(path, "w") as f:
        json.dump(body, f, indent=1, default=str)
    return path


def finish(pid: str, tier: str, acc: Acc, coverage: Dict[str, Any], t0: float,
           assumptions: Optional[List[str]] = None, guards: Optional[List[str]] = None,
           capped: Optional[str] = None) -> int:
    """Write evidence, print result lines, return the exit status."""
    known = load_known()
    unmatched, matched = [], {}
    for v in acc.violations:
        hit = None
        for kf in known:
            if matches(kf, pid, v):
                hit = kf
                break
        if hit is None:
            unmatched.append(v)
        else:
            matched.setdefault(hit["id"], [hit, 0, v])[1] += 1

    status = 0
    lines = []
    # infrastructure problems: never a violation, never success
    infra = list(acc.infra)
    if acc.units_done < acc.units_total and not capped:
        infra.append("only %d of %d units completed" % (acc.units_done, acc.units_total))
    for g in guards or []:
        infra.append("vacuity guard failed: " + g)

    sigs = {}
    for v in unmatched:
        sig = (v.get("check"), v.get("symptom"), v.get("site"), tuple(sorted(v.get("sig_features") or ())))
        sigs.setdefault(sig, []).append(v)
    for sig, vs in sigs.items():
        path = write_replay(pid, vs[0])
        lines.append("VIOLATION property=%s replay=%s" % (pid, path))
        lines.append("  # %s / %s / %s : %s  (%d case(s) carried)" % (sig[0], sig[1], sig[2], (vs[0].get("desc") or "")[:200], len(vs)))
        status = 1
    for fid, (kf, n, ex) in sorted(matched.items()):
        lines.append("KNOWN-FINDING: property=%s %s [%s, %d case(s) this run]" % (pid, kf["what"], fid, n))

    cov = dict(coverage)
    cov.setdefault("samples", acc.samples[:8] or [{"note": "no sample recorded"}])
    cov["distinct_outcomes"] = len(acc.outcomes)
    cov["distinct_outcomes_note"] = "vacuity indicator; digests are kept up to 100 000 per work unit and 2 000 000 per run"
    cov["classes_hit"] = dict(sorted(acc.classes.items()))
    cov["units_done"] = acc.units_done
    cov["units_total"] = acc.units_total
    cov["known_findings_matched"] = {fid: n for fid, (kf, n, ex) in matched.items()}
    cov["violations_raw"] = acc.counters.get("violations_raw", 0)
    if capped:
        cov["capped"] = capped
        cov["exhaustive"] = False
    ev = dict(property_id=pid, tier=tier, seed=seed(), level="model_checking", coverage=cov,
              assumptions=assumptions or [], wall_s=round(time.time() - t0, 2),
              violations=len(sigs), repo_tree=bind.repo_tree_id())
    os.makedirs(EVIDENCE_DIR, exist_ok=True)
    tmp = os.path.join(EVIDENCE_DIR, ".%s.json.tmp%d" % (pid, os.getpid()))
    with open(tmp, "w") as f:
        json.dump(ev, f, indent=1, default=str)
    os.replace(tmp, os.path.join(EVIDENCE_DIR, pid + ".json"))

    for l in lines:
        print(l)
    if infra and status == 0:
        for i in infra[:10]:
            print("INFRA-ERROR property=%s %s" % (pid, i[:3000]))
        status = 2
    print("%s tier=%s seed=%d states=%s transitions=%s evaluations=%s distinct_outcomes=%d wall=%.1fs exit=%d" % (
        pid, tier, seed(), cov.get("states"), cov.get("transitions"), cov.get("evaluations"), len(acc.outcomes),
        time.time() - t0, status))
    sys.stdout.flush()
    return status
