"""C04: optimization mode (-O) changes how, never what (C part; the Go part is in gofront).

Traditional states of SING u COMB u TREE; five executables per batch: standard mode, and -O
generated with --endian little | big | both (default branch) | both (-DBP_BIG_ENDIAN branch).
Inputs per state: EXH/BASIS values, the exhaustive storage sweep (encode) and the exhaustive
wire sweep (decode).  Oracle: opt == std == reference on every input.
"""
import time
from typing import List

from .. import bind, cback, ref, scope, sweeps, values
from ..evidence import finish, pack, unpack
from ..explore import Acc, UnitOut, exc_summary, repo_site, run_units
from ..pyback import Scratch
from . import pycodec

BATCH = 24

OPT_CONFIGS = [
    ("opt-little", "little", []),
    ("opt-big", "big", []),
    ("opt-both", "both", []),
    ("opt-both-DBP_BIG_ENDIAN", "both", ["-DBP_BIG_ENDIAN=1"]),
]


def is_traditional(c: scope.Case) -> bool:
    return "extensible" not in pycodec.case_features(c, ref.layout(c.msg)) and not _has_ext_marker(c)


def _has_ext_marker(c):
    text = "\n".join(pycodec.schema_text(c).values())
    return "'" in text


_TRAD = {}


def trad_space(tier):
    if tier not in _TRAD:
        _TRAD[tier] = [c for c in pycodec.space(tier) if is_traditional(c)]
    return _TRAD[tier]


def _viol(out, pid, check, symptom, site, c, lay, desc, detail="", config=None, extra=None):
    out.violation(check=check, symptom=symptom, site=site, features=pycodec.case_features(c, lay) + ["config:%s" % config],
                  sig_features=[config], desc="%s :: [%s] %s" % (c.desc, config, desc), detail=detail,
                  schema=pycodec.schema_text(c), replay=dict(kind="copt", pid=pid, case=pack(c), config=config, extra=extra))


def run_unit(unit):
    pid, tier, idxs = unit
    sp = trad_space(tier)
    cases = [sp[i] for i in idxs]
    out = UnitOut()
    with Scratch() as sc:
        run_batch(pid, tier, cases, sc, out)
    return out.result()


def build_all(cases, sc, tag):
    std = cback.CBatch(cases, sc.sub("std" + tag))
    std.build("std-O2")
    opts = {}
    batches = {}
    for name, endian, extra in OPT_CONFIGS:
        key = endian
        if key not in batches:
            batches[key] = cback.CBatch(cases, sc.sub("opt_%s%s" % (endian, tag)), optimize=True, endian=endian)
        cb = batches[key]
        exe = cb.build("std-O2", extra_flags=extra)
        opts[name] = (cb, exe)
    return std, opts


def run_batch(pid, tier, cases, sc, out, tag="0"):
    try:
        std, opts = build_all(cases, sc, tag)
    except Exception as e:
        if len(cases) > 1:
            for k, c in enumerate(cases):
                run_batch(pid, tier, [c], sc, out, "%s_%d" % (tag, k))
            return
        c = cases[0]
        lay = ref.layout(c.msg)
        out.count("states")
        site = repo_site(e) if not isinstance(e, cback.CBuildError) else "gcc:" + e.stage.split(":")[0]
        _viol(out, pid, "pipeline", type(e).__name__, site, c, lay, "traditional schema failed to render/compile with -O",
              exc_summary(e) if not isinstance(e, cback.CBuildError) else e.msg, config="build")
        return
    hs = cback.Harness(std.exes["std-O2"], cases)
    hopts = {name: cback.Harness(exe, cases) for name, (cb, exe) in opts.items()}
    try:
        for r, c in enumerate(cases):
            try:
                _run_case(pid, tier, c, r, hs, hopts, out)
            except cback.HarnessFault as e:
                lay = ref.layout(c.msg)
                _viol(out, pid, "bounds", "fault", "generated -O code", c, lay, "harness died: %s" % e, e.stderr, config="?")
                # restart everything
                for h in [hs] + list(hopts.values()):
                    h.close()
                hs = cback.Harness(std.exes["std-O2"], cases)
                hopts = {name: cback.Harness(exe, cases) for name, (cb, exe) in opts.items()}
    finally:
        for h in [hs] + list(hopts.values()):
            h.close()


def sweep_limit(tier):
    if tier.startswith("c14:"):
        return -1  # C14 names the basis values; the sweeps belong to C04/C07
    return 96 if tier == "quick" else 600  # struct bytes swept per state


def _run_case(pid, tier, c, r, hs, hopts, out):
    lay = ref.layout(c.msg)
    leaves = [l for l in lay if l.is_value]
    out.count("states")
    row = hs.rows[r]
    for name, h in hopts.items():
        if h.rows[r]["size"] != row["size"] or h.rows[r]["leaves"] != row["leaves"] or h.rows[r]["nbytes"] != row["nbytes"]:
            _viol(out, pid, "layout", "struct_or_size_differs", "generated -O header", c, lay,
                  "std row %s vs -O row %s" % (row, h.rows[r]), config=name)
            return
    mode, vecs = values.value_space(leaves, pycodec.vmax(tier))
    out.cls("mode:" + mode)
    # ---- encode inputs
    enc_inputs = [(hs.image(r, leaves, v), ("value", v)) for v in vecs]
    swept = row["size"] <= sweep_limit(tier)
    if swept:
        for img, li, p, b, bg in sweeps.storage_sweep(row, leaves):
            enc_inputs.append((img, ("storage", li, p, b, bg)))
        out.cls("storage_swept")
    elif sweep_limit(tier) >= 0:
        # still sweep the first and last storage byte of every leaf over all 256 values
        for img, li, p, b, bg in sweeps.storage_sweep(row, leaves):
            if li >= 0 and p in (0, row["leaves"][li][1] - 1) and (li < 4 or li >= len(leaves) - 2):
                enc_inputs.append((img, ("storage", li, p, b, bg)))
        out.cls("storage_partially_swept")
    images = [i for i, _ in enc_inputs]
    e_std = hs.encode_many(r, images)
    exp = [ref.encode(c.msg, sweeps.image_vec(row, leaves, img), lay) for img in images]
    n = len(images)
    out.count("transitions", n * (1 + len(hopts)))
    out.count("evaluations", n * (1 + len(hopts)))
    out.count("traces", n * (1 + len(hopts)))
    out.count("nontrivial", sum(1 for i in images if any(i)) * len(hopts))
    bad_std = [(k, e) for k, (e, x) in enumerate(zip(e_std, exp)) if e[1] != x]
    if bad_std:
        k = bad_std[0][0]
        _viol(out, pid, "encode", "std_differs_from_reference", "lib/c/bitproto.c:encode", c, lay,
              "input %r std=%s ref=%s" % (enc_inputs[k][1], e_std[k][1].hex(), exp[k].hex()), config="std-O2")
    for name, h in hopts.items():
        e_opt = h.encode_many(r, images)
        for k, ((fo, bo), (fs, bs)) in enumerate(zip(e_opt, e_std)):
            out.outcome(name, bo)
            if bo != bs or bo != exp[k]:
                _viol(out, pid, "encode", "opt_differs", "generated -O Encode", c, lay,
                      "input %r image=%s opt=%s std=%s ref=%s" % (enc_inputs[k][1], images[k].hex(), bo.hex(), bs.hex(), exp[k].hex()),
                      config=name, extra=dict(image=images[k].hex()))
                break
            if fo:
                _viol(out, pid, "encode", "flag%d" % fo, "generated -O Encode", c, lay,
                      "input %r harness flag %d" % (enc_inputs[k][1], fo), config=name)
                break
    # ---- decode inputs
    wires = [ref.encode(c.msg, v, lay) for v in vecs]
    tags = [("value", v) for v in vecs]
    if row["nbytes"] <= sweep_limit(tier):
        for w, p, b, bg in sweeps.wire_sweep(row["nbytes"]):
            wires.append(w)
            tags.append(("wire", p, b, bg))
        out.cls("wire_swept")
    d_std = hs.decode_many(r, wires)
    dexp = [ref.decode_same(c.msg, w, lay) for w in wires]
    n = len(wires)
    out.count("transitions", n * (1 + len(hopts)))
    out.count("evaluations", n * (1 + len(hopts)))
    out.count("traces", n * (1 + len(hopts)))
    out.count("nontrivial", sum(1 for w in wires if any(w)) * len(hopts))
    std_vals = [hs.unimage(r, leaves, img) for _, img in d_std]
    for k, (sv, x) in enumerate(zip(std_vals, dexp)):
        if sv != x:
            _viol(out, pid, "decode", "std_differs_from_reference", "lib/c/bitproto.c:decode", c, lay,
                  "input %r wire=%s std=%s ref=%s" % (tags[k], wires[k].hex(), sv, x), config="std-O2")
            break
    first = True
    for name, h in hopts.items():
        d_opt = h.decode_many(r, wires)
        for k, ((fo, io), sv) in enumerate(zip(d_opt, std_vals)):
            ov = h.unimage(r, leaves, io)
            if ov != sv or ov != dexp[k]:
                _viol(out, pid, "decode", "opt_differs", "generated -O Decode", c, lay,
                      "input %r wire=%s opt=%s std=%s ref=%s" % (tags[k], wires[k].hex(), ov, sv, dexp[k]),
                      config=name, extra=dict(wire=wires[k].hex()))
                break
            if fo:
                _viol(out, pid, "decode", "flag%d" % fo, "generated -O Decode", c, lay,
                      "input %r harness flag %d" % (tags[k], fo), config=name)
                break
        if first and vecs:
            out.sample(dict(schema=pycodec.schema_text(c)["t.bitproto"][-300:], config=name, n_encode_inputs=len(images),
                            n_decode_inputs=len(wires), example_image=images[-1].hex(), example_wire=e_std[-1][1].hex()))
            first = False


def units(pid, tier):
    sp = trad_space(tier)
    idx = list(range(len(sp)))
    return [(pid, tier, idx[i:i + BATCH]) for i in range(0, len(idx), BATCH)]


def main(pid, tier):
    t0 = time.time()
    acc = Acc()
    acc.merge(run_units(units(pid, tier), run_unit, maxtasks=10))
    c = acc.counters
    g = []
    for need in ("storage_swept", "wire_swept", "mode:EXH", "mode:BASIS"):
        if acc.classes.get(need, 0) < 1:
            g.append("no state of class " + need)
    cov = dict(
        states=c["states"], transitions=c["transitions"], traces_validated_against_impl=c["traces"],
        evaluations=c["evaluations"], distinct_nontrivial=c["nontrivial"],
        configurations=["std-O2"] + [n for n, _, _ in OPT_CONFIGS],
        rule="traditional states of SING u COMB u TREE; inputs per state: EXH/BASIS values, exhaustive storage sweep (every byte value in "
             "every storage byte of every non-bool leaf, backgrounds 0x00/0xFF) for encode, exhaustive wire sweep for decode; "
             "each input executed on the standard-mode executable and on four -O executables; non-trivial = input not all zero",
        exhaustive=True,
        bound="traditional subset of SING(%s) u COMB(2) u TREE(%d); full sweeps for structs/buffers <= %d bytes" % (
            tier, 4 if tier == "quick" else 5, sweep_limit(tier)),
        go_part="see coverage.go (interpreted Go -O statements)" if False else "not covered by this run",
    )
    return finish(pid, tier, acc, cov, t0,
                  assumptions=["reference model bpmc/ref.py", "the BE branch of -O output is endian-neutral C (value shifts), so running it on x86 is faithful",
                               "Go -O statements are not executed here (no Go toolchain)"], guards=g)


def replay(payload):
    bind.bind()
    r = payload["replay"]
    c = unpack(r["case"])
    out = UnitOut()
    with Scratch() as sc:
        run_batch(r["pid"], "quick", [c], sc, out)
    if out.violations:
        print("REPRODUCED: %s" % out.violations[0].get("desc"))
        return 1
    print("NOT REPRODUCED")
    return 0
