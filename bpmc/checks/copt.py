"""C04: optimization mode (-O) changes how, never what (C part; the Go part is in gofront).

Traditional states of SING u COMB u TREE; five executables per batch: standard mode, and -O
generated with --endian little | big | both (default branch) | both (-DBP_BIG_ENDIAN branch).
Inputs per state: EXH/BASIS values, the exhaustive storage sweep (encode) and the exhaustive
wire sweep (decode).  Oracle: opt == std == reference on every input.
"""
import os
import time
from typing import List

from .. import bind, cback, ref, scope, sweeps, values
from ..evidence import finish, pack, unpack
from ..explore import Acc, UnitOut, exc_summary, repo_site, run_units
from ..pyback import Scratch
from . import pycodec

BATCH = 24

OPT_CONFIGS = [
    ("opt-little", "little", []),
    ("opt-big", "big", []),
    ("opt-both", "both", []),
    ("opt-both-DBP_BIG_ENDIAN", "both", ["-DBP_BIG_ENDIAN=1"]),
]


def is_traditional(c: scope.Case) -> bool:
    return "extensible" not in pycodec.case_features(c, ref.layout(c.msg)) and not _has_ext_marker(c)


def _has_ext_marker(c):
    text = "\n".join(pycodec.schema_text(c).values())
    return "'" in text


_TRAD = {}


def trad_space(tier):
    if tier not in _TRAD:
        _TRAD[tier] = [c for c in pycodec.c_space(tier) if is_traditional(c) and "last_member" not in c.feats]  # the struct-end variants are C07's (bounds), not a codec shape of their own
    return _TRAD[tier]


def _viol(out, pid, check, symptom, site, c, lay, desc, detail="", config=None, extra=None):
    out.violation(check=check, symptom=symptom, site=site, features=pycodec.case_features(c, lay) + ["config:%s" % config],
                  sig_features=[config], desc="%s :: [%s] %s" % (c.desc, config, desc), detail=detail,
                  schema=pycodec.schema_text(c), replay=dict(kind="copt", pid=pid, case=pack(c), config=config, extra=extra))


def run_unit(unit):
    pid, tier, idxs = unit
    sp = trad_space(tier)
    cases = [sp[i] for i in idxs]
    out = UnitOut()
    with Scratch() as sc:
        run_batch(pid, tier, cases, sc, out)
    return out.result()


def opt_configs(tier):
    if tier == "c14:quick":
        return [c for c in OPT_CONFIGS if c[0] in ("opt-little", "opt-both-DBP_BIG_ENDIAN")]
    return OPT_CONFIGS


def build_all(cases, sc, tag, tier="quick"):
    std = cback.CBatch(cases, sc.sub("std" + tag))
    std.build("std-O2")
    opts = {}
    batches = {}
    for name, endian, extra in opt_configs(tier):
        key = endian
        if key not in batches:
            batches[key] = cback.CBatch(cases, sc.sub("opt_%s%s" % (endian, tag)), optimize=True, endian=endian)
        cb = batches[key]
        exe = cb.build("std-O2", extra_flags=extra)
        opts[name] = (cb, exe)
    return std, opts


def run_batch(pid, tier, cases, sc, out, tag="0"):
    try:
        std, opts = build_all(cases, sc, tag, tier)
    except Exception as e:
        if len(cases) > 1:
            for k, c in enumerate(cases):
                run_batch(pid, tier, [c], sc, out, "%s_%d" % (tag, k))
            return
        c = cases[0]
        lay = ref.layout(c.msg)
        out.count("states")
        site = repo_site(e) if not isinstance(e, cback.CBuildError) else "gcc:" + e.stage.split(":")[0]
        _viol(out, pid, "pipeline", type(e).__name__, site, c, lay, "traditional schema failed to render/compile with -O",
              exc_summary(e) if not isinstance(e, cback.CBuildError) else e.msg, config="build")
        return
    hs = cback.Harness(std.exes["std-O2"], cases)
    hopts = {name: cback.Harness(exe, cases) for name, (cb, exe) in opts.items()}
    try:
        for r, c in enumerate(cases):
            try:
                _run_case(pid, tier, c, r, hs, hopts, out)
            except cback.HarnessFault as e:
                lay = ref.layout(c.msg)
                _viol(out, pid, "bounds", "fault", "generated -O code", c, lay, "harness died: %s" % e, e.stderr, config="?")
                # restart everything
                for h in [hs] + list(hopts.values()):
                    h.close()
                hs = cback.Harness(std.exes["std-O2"], cases)
                hopts = {name: cback.Harness(exe, cases) for name, (cb, exe) in opts.items()}
    finally:
        for h in [hs] + list(hopts.values()):
            h.close()


_QUICK_CANON = None


def full_sweeps_for(c, tier):
    """Thorough tier: the complete per-byte sweeps run on the states of the quick space (with the larger size limit); the additional
    states of the thorough space (all widths 1..64, more capacities and paddings) get the value spaces and the partial sweeps."""
    global _QUICK_CANON
    if tier == "quick" or tier.startswith("c14:"):
        return True
    if _QUICK_CANON is None:
        _QUICK_CANON = {pycodec.canon(x) for x in pycodec.space("quick")}
    return pycodec.canon(c) in _QUICK_CANON


def sweep_limit(tier):
    if tier.startswith("c14:"):
        return -1  # C14 names the basis values; the sweeps belong to C04/C07
    return 96 if tier == "quick" else 600  # struct bytes swept per state


def _run_case(pid, tier, c, r, hs, hopts, out):
    lay = ref.layout(c.msg)
    leaves = [l for l in lay if l.is_value]
    out.count("states")
    row = hs.rows[r]
    for name, h in hopts.items():
        if h.rows[r]["size"] != row["size"] or h.rows[r]["leaves"] != row["leaves"] or h.rows[r]["nbytes"] != row["nbytes"]:
            _viol(out, pid, "layout", "struct_or_size_differs", "generated -O header", c, lay,
                  "std row %s vs -O row %s" % (row, h.rows[r]), config=name)
            return
    mode, vecs = values.value_space(leaves, pycodec.vmax(tier))
    out.cls("mode:" + mode)
    # ---- encode inputs
    enc_inputs = [(hs.image(r, leaves, v), ("value", v)) for v in vecs]
    swept = row["size"] <= sweep_limit(tier) and full_sweeps_for(c, tier)
    if swept:
        for img, li, p, b, bg in sweeps.storage_sweep(row, leaves):
            enc_inputs.append((img, ("storage", li, p, b, bg)))
        out.cls("storage_swept")
    elif sweep_limit(tier) >= 0:
        # still sweep the first and last storage byte of every leaf over all 256 values
        for img, li, p, b, bg in sweeps.storage_sweep(row, leaves):
            if li >= 0 and p in (0, row["leaves"][li][1] - 1) and (li < 4 or li >= len(leaves) - 2):
                enc_inputs.append((img, ("storage", li, p, b, bg)))
        out.cls("storage_partially_swept")
    images = [i for i, _ in enc_inputs]
    e_std = hs.encode_many(r, images)
    exp = [ref.encode(c.msg, sweeps.image_vec(row, leaves, img), lay) for img in images]
    n = len(images)
    out.count("transitions", n * (1 + len(hopts)))
    out.count("evaluations", n * (1 + len(hopts)))
    out.count("traces", n * (1 + len(hopts)))
    out.count("nontrivial", sum(1 for i in images if any(i)) * len(hopts))
    bad_std = [(k, e) for k, (e, x) in enumerate(zip(e_std, exp)) if e[1] != x]
    if bad_std:
        k = bad_std[0][0]
        _viol(out, pid, "encode", "std_differs_from_reference", "lib/c/bitproto.c:encode", c, lay,
              "input %r std=%s ref=%s" % (enc_inputs[k][1], e_std[k][1].hex(), exp[k].hex()), config="std-O2")
    for name, h in hopts.items():
        e_opt = h.encode_many(r, images)
        for k, ((fo, bo), (fs, bs)) in enumerate(zip(e_opt, e_std)):
            out.outcome(name, bo)
            if bo != bs or bo != exp[k]:
                _viol(out, pid, "encode", "opt_differs", "generated -O Encode", c, lay,
                      "input %r image=%s opt=%s std=%s ref=%s" % (enc_inputs[k][1], images[k].hex(), bo.hex(), bs.hex(), exp[k].hex()),
                      config=name, extra=dict(image=images[k].hex()))
                break
            if fo:
                _viol(out, pid, "encode", "flag%d" % fo, "generated -O Encode", c, lay,
                      "input %r harness flag %d" % (enc_inputs[k][1], fo), config=name)
                break
    # ---- decode inputs
    wires = [ref.encode(c.msg, v, lay) for v in vecs]
    tags = [("value", v) for v in vecs]
    if row["nbytes"] <= sweep_limit(tier) and full_sweeps_for(c, tier):
        for w, p, b, bg in sweeps.wire_sweep(row["nbytes"]):
            wires.append(w)
            tags.append(("wire", p, b, bg))
        out.cls("wire_swept")
    d_std = hs.decode_many(r, wires)
    dexp = [ref.decode_same(c.msg, w, lay) for w in wires]
    n = len(wires)
    out.count("transitions", n * (1 + len(hopts)))
    out.count("evaluations", n * (1 + len(hopts)))
    out.count("traces", n * (1 + len(hopts)))
    out.count("nontrivial", sum(1 for w in wires if any(w)) * len(hopts))
    std_vals = [hs.unimage(r, leaves, img) for _, img in d_std]
    for k, (sv, x) in enumerate(zip(std_vals, dexp)):
        if sv != x:
            _viol(out, pid, "decode", "std_differs_from_reference", "lib/c/bitproto.c:decode", c, lay,
                  "input %r wire=%s std=%s ref=%s" % (tags[k], wires[k].hex(), sv, x), config="std-O2")
            break
    first = True
    for name, h in hopts.items():
        d_opt = h.decode_many(r, wires)
        for k, ((fo, io), sv) in enumerate(zip(d_opt, std_vals)):
            ov = h.unimage(r, leaves, io)
            if ov != sv or ov != dexp[k]:
                _viol(out, pid, "decode", "opt_differs", "generated -O Decode", c, lay,
                      "input %r wire=%s opt=%s std=%s ref=%s" % (tags[k], wires[k].hex(), ov, sv, dexp[k]),
                      config=name, extra=dict(wire=wires[k].hex()))
                break
            if fo:
                _viol(out, pid, "decode", "flag%d" % fo, "generated -O Decode", c, lay,
                      "input %r harness flag %d" % (tags[k], fo), config=name)
                break
        if first and vecs:
            out.sample(dict(schema=pycodec.schema_text(c)["t.bitproto"][-300:], config=name, n_encode_inputs=len(images),
                            n_decode_inputs=len(wires), example_image=images[-1].hex(), example_wire=e_std[-1][1].hex()))
            first = False


def units(pid, tier):
    sp = trad_space(tier)
    idx = list(range(len(sp)))
    if tier == "thorough":
        # every state of the quick space (complete sweeps) and every third of the additional thorough states (values + partial sweeps):
        # five executables per state make the full thorough space an hour of work on 16 cores
        idx = [i for i in idx if full_sweeps_for(sp[i], tier) or i % 3 == 0]
    return [(pid, tier, idx[i:i + BATCH]) for i in range(0, len(idx), BATCH)]


def dispatch(unit):
    if unit[0] == "GO":
        return run_go_unit(unit[1])
    return run_unit(unit)


def main(pid, tier):
    t0 = time.time()
    acc = Acc()
    acc.merge(run_units(units(pid, tier) + [("GO", u) for u in go_units(pid, tier)], dispatch, maxtasks=10))
    c = acc.counters
    g = []
    for need in ("storage_swept", "wire_swept", "mode:EXH", "mode:BASIS"):
        if acc.classes.get(need, 0) < 1:
            g.append("no state of class " + need)
    cov = dict(
        states=c["states"], transitions=c["transitions"], traces_validated_against_impl=c["traces"],
        evaluations=c["evaluations"], distinct_nontrivial=c["nontrivial"],
        configurations=["std-O2"] + [n for n, _, _ in OPT_CONFIGS],
        rule="traditional states of SING u COMB u TREE; inputs per state: EXH/BASIS values, exhaustive storage sweep (every byte value in "
             "every storage byte of every non-bool leaf, backgrounds 0x00/0xFF) for encode, exhaustive wire sweep for decode; "
             "each input executed on the standard-mode executable and on four -O executables; non-trivial = input not all zero",
        exhaustive=True,
        bound="traditional subset of SING(%s) u COMB(2) u TREE(%d) u HOMONYMS; full sweeps for structs/buffers <= %d bytes (thorough: all states of the quick space with full sweeps + every third additional state with partial sweeps)" % (
            tier, 4 if tier == "quick" else 5, sweep_limit(tier)),
        go_part=dict(states=c["go_states"], evaluations=c["go_evaluations"],
                     note="Go -O Encode/Decode bodies interpreted by bpmc/gofront (typed evaluation) on EXH/BASIS values, a typed per-byte value sweep "
                          "and a wire sweep; states with definitions in imported files are not interpreted (single-package evaluator)"),
    )
    return finish(pid, tier, acc, cov, t0,
                  assumptions=["reference model bpmc/ref.py", "the BE branch of -O output is endian-neutral C (value shifts), so running it on x86 is faithful",
                               "Go -O statements are interpreted by bpmc/gofront (no Go toolchain): its reading of the Go specification is trusted"], guards=g)


def replay(payload):
    bind.bind()
    r = payload["replay"]
    c = unpack(r["case"])
    out = UnitOut()
    with Scratch() as sc:
        run_batch(r["pid"], "quick", [c], sc, out)
    if out.violations:
        print("REPRODUCED: %s" % out.violations[0].get("desc"))
        return 1
    print("NOT REPRODUCED")
    return 0


# ------------------------------------------------------------------ Go -O statements (interpreted)
GO_BATCH = 16
GO_BYTES_QUICK = (0x00, 0x01, 0x02, 0x04, 0x08, 0x10, 0x20, 0x40, 0x80, 0xFF, 0xFE, 0x7F, 0x55, 0xAA)


def go_supported(c: scope.Case) -> bool:
    return not (c.libp or c.liba)


def go_field(struct_t, name):
    for fname, ftype, tag, line in struct_t[1]:
        if tag and ('json:"%s"' % name) in tag:
            return fname
    raise bind.InfraError("Go struct has no field tagged json:%s" % name)


def go_walk(machine, obj, tname, path):
    """Follow a reference-layout leaf path inside an evaluated Go object. Returns (container, key)."""
    from .. import gofront
    cur, cur_t = obj, ("name", tname)
    steps = list(path)
    for k, (kind, key) in enumerate(steps):
        # resolve named types down to struct / array
        while cur_t[0] == "name" and cur_t[1] in machine.types and machine.types[cur_t[1]][0] in ("struct", "array", "name"):
            cur_t = machine.types[cur_t[1]]
        if kind == "f":
            fname = go_field(cur_t, key)
            ft = [f[1] for f in cur_t[1] if f[0] == fname][0]
            if k == len(steps) - 1:
                return cur, fname
            cur, cur_t = cur[fname], ft
        else:
            if k == len(steps) - 1:
                return cur, key
            cur, cur_t = cur[key], cur_t[2]
    raise bind.InfraError("empty path")


def run_go_unit(unit):
    from .. import gofront
    from ..pyback import parse_file, render_strings, quiet_stderr
    pid, tier, idxs = unit
    sp = [c for c in trad_space(tier) if go_supported(c)]
    cases = [sp[i] for i in idxs]
    out = UnitOut()
    with Scratch() as sc:
        d = sc.sub("go")
        batch = scope.make_batch(cases)
        from ..ir import write_files
        write_files(batch, d)
        try:
            with quiet_stderr():
                p = parse_file(os.path.join(d, batch.filename), traditional_mode=True)
                from bitproto.renderer.impls import renderer_registry
                text = renderer_registry["go"][0](p, outdir=d, optimization_mode=True).render_string()
        except Exception as e:
            out.violation(check="go-pipeline", symptom=type(e).__name__, site=repo_site(e), features=[], desc="go -O rendering failed for a traditional batch", detail=exc_summary(e))
            return out.result()
        try:
            ast = gofront.parse(text)
        except gofront.GoSyntaxError as e:
            raise bind.InfraError("gofront cannot read generated Go: %s" % e)
        m = gofront.Machine(ast)
        V = gofront.V
        for c in cases:
            lay = ref.layout(c.msg)
            leaves = [l for l in lay if l.is_value]
            out.count("states")
            out.count("go_states")
            name = c.msg.name
            enc_m, dec_m = m.methods.get((name, "Encode")), m.methods.get((name, "Decode"))
            if enc_m is None or dec_m is None:
                _viol(out, pid, "go", "missing_method", "generated go -O", c, lay, "no Encode/Decode method for %s" % name, config="go -O")
                continue
            mode, vecs = values.value_space(leaves, min(pycodec.vmax(tier), 6))
            # typed "storage" sweep: every byte of every integer leaf's Go value
            probe = m.zero(("name", name))
            slots = [go_walk(m, probe, name, l.path) for l in leaves]
            types = [cont[key].t for cont, key in slots]
            inputs = [list(v) for v in vecs]
            bytevals = range(256) if ((tier != "quick" and full_sweeps_for(c, tier)) or len(leaves) <= 1) else GO_BYTES_QUICK
            for bg in (0, -1):
                base = [(bg if l.kind != "bool" else (bg & 1)) for l in leaves]
                for li, l in enumerate(leaves):
                    if l.kind == "bool":
                        continue
                    info = m.int_info(types[li])
                    if info is None:
                        raise bind.InfraError("leaf %s has Go type %s" % (l.path, types[li]))
                    for pbyte in range(info[0] // 8):
                        for b in bytevals:
                            v = list(base)
                            raw = (bg & ~(0xFF << (8 * pbyte))) | (b << (8 * pbyte))
                            v[li] = raw
                            inputs.append(v)
            try:
                for vec in inputs:
                    obj = m.zero(("name", name))
                    for l, t, x in zip(leaves, types, vec):
                        cont, key = go_walk(m, obj, name, l.path)
                        cont[key] = V(t, bool(x & 1)) if l.kind == "bool" else m.wrap(t, x)
                    enc = m.call(enc_m, obj, [])
                    got = bytes(b.v for b in enc)
                    exp = ref.encode(c.msg, vec, lay)
                    out.count("evaluations")
                    out.count("traces")
                    out.count("transitions")
                    out.count("go_evaluations")
                    if any(vec):
                        out.count("nontrivial")
                    if got != exp:
                        _viol(out, pid, "go-encode", "opt_differs", "generated go -O Encode", c, lay,
                              "values=%s go bytes=%s reference=%s" % (vec, got.hex(), exp.hex()), config="go -O")
                        break
                wires = [ref.encode(c.msg, v, lay) for v in vecs]
                nb = ref.nbytes(c.msg)
                for bg in (0x00, 0xFF):
                    for pbyte in range(nb):
                        for b in (bytevals if nb <= 6 else GO_BYTES_QUICK):
                            w = bytearray([bg]) * nb
                            w[pbyte] = b
                            wires.append(bytes(w))
                for w in wires:
                    obj = m.zero(("name", name))
                    m.call(dec_m, obj, [[V("byte", x) for x in w]])
                    got = []
                    for l in leaves:
                        cont, key = go_walk(m, obj, name, l.path)
                        got.append(int(cont[key].v))
                    exp = ref.decode_same(c.msg, w, lay)
                    out.count("evaluations")
                    out.count("traces")
                    out.count("transitions")
                    out.count("go_evaluations")
                    if got != exp:
                        _viol(out, pid, "go-decode", "opt_differs", "generated go -O Decode", c, lay,
                              "wire=%s go values=%s reference=%s" % (w.hex(), got, exp), config="go -O")
                        break
            except gofront.GoEvalError as e:
                _viol(out, pid, "go", "statement_not_valid_go:" + str(e)[:60], "generated go -O", c, lay, "evaluating the generated statements: %s" % e, config="go -O")
        out.sample(dict(kind="go -O", states=len(cases), example=cases[0].desc))
    return out.result()


def go_units(pid, tier):
    sp = [c for c in trad_space(tier) if go_supported(c)]
    idx = list(range(len(sp)))
    if tier == "quick":
        idx = idx[::3]
    else:
        # thorough: every state of the quick space (complete byte sweeps) and every 8th of the additional states (the quick byte alphabet);
        # the interpreter is two orders of magnitude slower than compiled C
        idx = [i for i in idx if full_sweeps_for(sp[i], tier) or i % 8 == 0]
    return [(pid, tier, idx[i:i + GO_BATCH]) for i in range(0, len(idx), GO_BATCH)]
