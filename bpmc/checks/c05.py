"""C05: forward compatibility - an older schema decodes data from an extended one.

Roots: Packet{ uintP pre; R region; uint8 post; [R2 region2]; uint3 post2 } over a region
alphabet; breadth-first search over evolution events (append a field to an extensible
message node, grow an extensible array node) with canonical de-duplication.  For every
ancestor/descendant pair on a path and every BASIS value of the descendant: encode with the
descendant (reference encoder = what C01/C03 establish for the implementation encoders),
decode with the ancestor's *implementation* decoder in Python and in C.
"""
import copy
import time
from collections import OrderedDict
from typing import Any, Dict, List, Tuple

from .. import bind, cback, ref, scope, values
from ..evidence import finish, pack, unpack
from ..explore import Acc, UnitOut, bfs, exc_summary, repo_site, run_units
from ..ir import AliasDef, Array, Bool, Byte, EnumDef, Field, Int, MessageDef, Named, ProtoFile, Uint, print_proto
from ..pyback import Scratch, compile_py, get_vec, watchdog

PID = "C05"

# ----------------------------------------------------------------- symbolic schemas
# defs: OrderedDict name -> ("msg", ext, [(texpr, fname, number)...]) | ("alias", texpr) | ("enum", width, members)
# texpr: ("bool",) ("byte",) ("uint", n) ("int", n) ("ref", name) ("arr", elem, cap, ext)


def link(defs: "OrderedDict[str, Any]", suffix: str):
    """Symbolic -> IR; every definition name gets `suffix` so many versions share one file."""
    built: Dict[str, Any] = {}

    def ty(t):
        k = t[0]
        if k == "bool":
            return Bool()
        if k == "byte":
            return Byte()
        if k == "uint":
            return Uint(t[1])
        if k == "int":
            return Int(t[1])
        if k == "ref":
            d = built[t[1]]
            return Named(d, d.name)
        if k == "arr":
            return Array(ty(t[1]), t[2], t[3])
        raise ValueError(t)

    order = []
    for name, d in defs.items():
        if d[0] == "msg":
            built[name] = MessageDef(name + suffix, d[1], tuple(Field(ty(t), fn, num) for t, fn, num in d[2]))
        elif d[0] == "alias":
            built[name] = AliasDef(name + suffix, ty(d[1]))
        elif d[0] == "enum":
            built[name] = EnumDef(name + suffix, d[1], tuple(("%s%s_%s" % (name.upper(), suffix.upper(), mn), mv) for mn, mv in d[2]))
        order.append(built[name])
    return order, built["Packet"]


def canon(defs) -> str:
    return repr(list(defs.items()))


def region_alphabet():
    E3 = ("enum", 3, (("Z", 0), ("A", 1), ("B", 2), ("C", 5), ("D", 7)))
    out = []

    def add(name, defs, rt):
        out.append((name, defs, rt))

    add("extmsg1", [("Em", ("msg", True, [(("uint", 3), "a", 1)]))], ("ref", "Em"))
    add("extmsg2", [("Em", ("msg", True, [(("uint", 3), "a", 1), (("int", 9), "b", 2)]))], ("ref", "Em"))
    for en, et in (("bool", ("bool",)), ("uint3", ("uint", 3)), ("uint8", ("uint", 8)), ("int13", ("int", 13)), ("byte", ("byte",))):
        for cap in (2, 5):
            add("extarr_%s_%d" % (en, cap), [], ("arr", et, cap, True))
    add("extarr_enum", [("Ee", E3)], ("arr", ("ref", "Ee"), 3, True))
    add("extarr_msg", [("Pm", ("msg", False, [(("uint", 5), "x", 1), (("bool",), "y", 2)]))], ("arr", ("ref", "Pm"), 2, True))
    add("extarr_extmsg", [("Em", ("msg", True, [(("uint", 5), "x", 1)]))], ("arr", ("ref", "Em"), 2, True))
    add("arr_extmsg", [("Em", ("msg", True, [(("uint", 5), "x", 1)]))], ("arr", ("ref", "Em"), 2, False))
    add("extmsg_with_extarr", [("Em", ("msg", True, [(("uint", 2), "a", 1), (("arr", ("uint", 6), 2, True), "r", 2)]))], ("ref", "Em"))
    add("alias_extarr", [("Al", ("alias", ("arr", ("int", 7), 3, True)))], ("ref", "Al"))
    add("extarr_of_alias_extarr", [("Row", ("alias", ("arr", ("uint", 8), 3, True)))], ("arr", ("ref", "Row"), 2, True))
    add("extarr_of_alias_arr", [("Row", ("alias", ("arr", ("uint", 5), 2, False)))], ("arr", ("ref", "Row"), 2, True))
    add("arr_of_alias_extarr", [("Row", ("alias", ("arr", ("bool",), 3, True)))], ("arr", ("ref", "Row"), 2, False))
    # announced values that need the high byte of the 16-bit prefix
    add("extarr_bool_256", [], ("arr", ("bool",), 256, True))
    add("extmsg_big", [("Em", ("msg", True, [(("arr", ("uint", 64), 4, False), "w", 1), (("uint", 7), "x", 2)]))], ("ref", "Em"))
    # a placeholder: an extensible message without fields (docs/language.rst allows it) that later versions fill
    add("extmsg_empty", [("Em", ("msg", True, []))], ("ref", "Em"))
    add("arr_of_empty_extmsg", [("Em", ("msg", True, []))], ("arr", ("ref", "Em"), 2, False))
    add("extmsg_in_extmsg", [("In", ("msg", True, [(("uint", 4), "i", 1)])),
                             ("Em", ("msg", True, [(("ref", "In"), "inner", 1), (("uint", 3), "t", 2)]))], ("ref", "Em"))
    return out


def roots(tier):
    regs = region_alphabet()
    out = []
    pres = (0, 3, 7) if tier == "thorough" else (3,)
    for pi, pre in enumerate(pres):
        for ri, (rname, rdefs, rt) in enumerate(regs):
            for pkt_ext in (False, True):
                if pkt_ext and (ri % 3 != 0) and tier == "quick":
                    continue
                for second in (None, "same"):
                    if second and (ri % 4 != 1):
                        continue
                    defs = OrderedDict(rdefs)
                    fields = []
                    if pre:
                        fields.append((("uint", pre), "pre", 1))
                    fields.append((rt, "region", 2))
                    fields.append((("uint", 8), "post", 3))
                    if second:
                        fields.append((rt, "region2", 4))
                    fields.append((("uint", 3), "post2", 5))
                    defs["Packet"] = ("msg", pkt_ext, fields)
                    out.append(("pre%d/%s/%s%s" % (pre, rname, "ext" if pkt_ext else "plain", "/2regions" if second else ""), defs))
    return out


APPEND_TYPES_QUICK = [("bool",), ("uint", 13), ("arr", ("byte",), 3, False)]
APPEND_TYPES_THOROUGH = [("bool",), ("uint", 3), ("uint", 8), ("uint", 13), ("int", 64), ("arr", ("byte",), 3, False), "NEWEXT"]
GROW_QUICK = (1, 7)
GROW_THOROUGH = (1, 2, 7)


def successors_fn(tier):
    appends = APPEND_TYPES_QUICK if tier == "quick" else APPEND_TYPES_THOROUGH
    grows = GROW_QUICK if tier == "quick" else GROW_THOROUGH

    def grow_in(t, delta, counter, target):
        """Grow the target-th extensible array occurrence inside texpr t."""
        if t[0] == "arr":
            elem = grow_in(t[1], delta, counter, target)
            if t[3]:
                counter[0] += 1
                if counter[0] == target:
                    return ("arr", elem, t[2] + delta, True)
            return ("arr", elem, t[2], t[3])
        return t

    def count_ext_arrays(t):
        if t[0] == "arr":
            return (1 if t[3] else 0) + count_ext_arrays(t[1])
        return 0

    def succ(defs):
        # append_field on every extensible message definition
        for name, d in defs.items():
            if d[0] == "msg" and d[1]:
                num = max([n for _, _, n in d[2]] + [0]) + 1
                if num > 250:
                    continue
                for T in appends:
                    nd = OrderedDict()
                    for k, v in defs.items():
                        if k == name:
                            if T == "NEWEXT":
                                nn = "Nx%d" % len(defs)
                                nd[nn] = ("msg", True, [(("uint", 2), "n", 1)])
                                nd[k] = ("msg", True, list(v[2]) + [(("ref", nn), "f%d" % num, num)])
                            else:
                                nd[k] = ("msg", True, list(v[2]) + [(T, "f%d" % num, num)])
                        else:
                            nd[k] = v
                    yield ("append", name, T if T != "NEWEXT" else "new ext message"), nd
        # grow on every extensible array occurrence (in message fields and aliases)
        for name, d in defs.items():
            if d[0] == "msg":
                for fi, (t, fn, num) in enumerate(d[2]):
                    for occ in range(1, count_ext_arrays(t) + 1):
                        for delta in grows:
                            nt = grow_in(t, delta, [0], occ)
                            nd = OrderedDict((k, (("msg", v[1], [(nt if (k == name and j == fi) else tt, f2, n2) for j, (tt, f2, n2) in enumerate(v[2])]) if k == name else v))
                                             for k, v in defs.items())
                            yield ("grow", "%s.%s#%d" % (name, fn, occ), delta), nd
            elif d[0] == "alias":
                for occ in range(1, count_ext_arrays(d[1]) + 1):
                    for delta in grows:
                        nd = OrderedDict((k, (("alias", grow_in(v[1], delta, [0], occ)) if k == name else v)) for k, v in defs.items())
                        yield ("grow", "%s#%d" % (name, occ), delta), nd

    return succ


def depth(tier):
    return 2 if tier == "quick" else 3


# --------------------------------------------------------------------------- execution
def _text(defs):
    order, _ = link(defs, "")
    return print_proto(ProtoFile("v", "v", (), tuple(order)))[0]


def run_unit(unit):
    _, tier, ridx = unit
    rname, root = roots(tier)[ridx]
    out = UnitOut()
    order, transitions, capped = bfs([root], successors_fn(tier), canon, depth(tier), max_states=2500 if tier == "quick" else 30000)
    out.count("bfs_transitions", transitions)
    if capped:
        out.count("capped")
    # link every state with a unique suffix; one schema file for all states of this root
    states = []
    by_canon = {}
    for k, (defs, d, hist) in enumerate(order):
        ds, pkt = link(defs, "V%d" % k)
        states.append(dict(defs=defs, depth=d, hist=hist, ir=ds, pkt=pkt))
        by_canon[canon(defs)] = k
    # ancestors along the BFS path: replay the history from the root
    succ = successors_fn(tier)
    for st in states:
        chain = [0]
        cur = root
        for ev in st["hist"]:
            for e2, nxt in succ(cur):
                if e2 == ev:
                    cur = nxt
                    break
            chain.append(by_canon[canon(cur)])
        st["ancestors"] = chain[:-1]
    with Scratch() as sc:
        CH = 60
        for i in range(0, len(states), CH):
            _run_chunk(tier, rname, states, list(range(i, min(len(states), i + CH))), sc, out, "k%d" % i)
    return out.result()


def _needed(states, idxs):
    need = set(idxs)
    for k in idxs:
        need.update(states[k]["ancestors"])
    return sorted(need)


def _run_chunk(tier, rname, states, idxs, sc, out, tag):
    need = _needed(states, idxs)
    items = []
    for k in need:
        items.extend(states[k]["ir"])
    proto = ProtoFile("t", "t", (), tuple(items))
    cases = [scope.Case("V%d" % k, states[k]["pkt"]) for k in need]
    row_of = {k: r for r, k in enumerate(need)}
    pymod = None
    try:
        ms, _, _ = compile_py(proto, sc.sub("py" + tag))
        pymod = ms
    except Exception as e:
        out.violation(check="pipeline", symptom=type(e).__name__, site=repo_site(e), features=[], desc="root %s: python pipeline failed" % rname,
                      detail=exc_summary(e))
    h = None
    try:
        cb = _CB(cases, sc.sub("c" + tag), proto)
        cb.build("std-O2")
        h = cb.harness("std-O2")
    except Exception as e:
        out.violation(check="pipeline", symptom=type(e).__name__, site="c-build", features=[], desc="root %s: C pipeline failed" % rname,
                      detail=str(e)[-2000:])
    try:
        for j in idxs:
            sj = states[j]
            out.count("states")
            layj = ref.layout(sj["pkt"])
            leavesj = [l for l in layj if l.is_value]
            pathsj = {l.path: n for n, l in enumerate(leavesj)}
            vecs = values.basis(leavesj)
            wires = [ref.encode(sj["pkt"], v, layj) for v in vecs]
            # the newest version is encoded by the IMPLEMENTATION encoders as well: they must announce what the reference announces
            if pymod is not None:
                clsj = getattr(pymod.module, sj["pkt"].name)
                from ..pyback import set_vec
                for v, w in zip(vecs[:3] + vecs[-2:], wires[:3] + wires[-2:]):
                    try:
                        o = clsj()
                        set_vec(o, leavesj, v)
                        got = bytes(o.encode())
                    except Exception as e:
                        got = None
                    out.count("evaluations")
                    if got != w:
                        out.violation(check="py-encode", symptom="announced_sizes_or_bytes_differ", site="lib/py/bitprotolib/bp.py:encode", features=["event:encode"],
                                      sig_features=["py-encode"], desc="newest version %s: python encoder gives %s, reference %s" % (
                                          " / ".join(str(e) for e in sj["hist"]) or "root", got.hex() if got else None, w.hex()),
                                      schema={"new.bitproto": _text(sj["defs"])}, replay=dict(kind="c05", old=pack(sj["defs"]), new=pack(sj["defs"])))
                        break
            if h is not None:
                rj = row_of[j]
                try:
                    encj = h.encode_many(rj, [h.image(rj, leavesj, v) for v in vecs[:3] + vecs[-2:]])
                    for (flag, got), w in zip(encj, wires[:3] + wires[-2:]):
                        out.count("evaluations")
                        if got != w:
                            out.violation(check="c-encode", symptom="announced_sizes_or_bytes_differ", site="lib/c/bitproto.c:encode", features=["event:encode"],
                                          sig_features=["c-encode"], desc="newest version %s: C encoder gives %s, reference %s" % (
                                              " / ".join(str(e) for e in sj["hist"]) or "root", got.hex(), w.hex()), schema={"new.bitproto": _text(sj["defs"])},
                                          replay=dict(kind="c05", old=pack(sj["defs"]), new=pack(sj["defs"])))
                            break
                except cback.HarnessFault as e:
                    h.close()
                    h = cb.harness("std-O2")
            for i in sorted(set(sj["ancestors"])):
                si = states[i]
                if i == j:
                    continue
                layi = ref.layout(si["pkt"])
                leavesi = [l for l in layi if l.is_value]
                try:
                    sel = [pathsj[l.path] for l in leavesi]
                except KeyError:
                    raise bind.InfraError("an old leaf does not exist in the extended schema: generator bug")
                feats = _pair_features(si, sj, layi, layj)
                for f in feats:
                    out.cls(f)
                expects = [[v[s] for s in sel] for v in vecs]
                # self-check of the reference skip rule (infrastructure, not a verdict)
                if ref.decode_dynamic(si["pkt"], wires[-1]) != expects[-1]:
                    raise bind.InfraError("reference decode_dynamic disagrees with the encoded values")
                out.count("transitions", len(vecs))
                # ---- Python decoder of S_i
                if pymod is not None:
                    cls = getattr(pymod.module, si["pkt"].name)
                    for v, w, x in zip(vecs, wires, expects):
                        out.count("evaluations")
                        out.count("traces")
                        if any(v):
                            out.count("nontrivial")
                        try:
                            with watchdog(10):
                                o = cls()
                                o.decode(bytearray(w))
                                got = get_vec(o, leavesi)
                        except Exception as e:
                            _viol(out, "py-decode", type(e).__name__, repo_site(e), si, sj, feats, "old Python decoder raised on extended data: vec=%s" % (v,), exc_summary(e))
                            break
                        out.outcome("py", tuple(got))
                        if got != x:
                            bad = [(l.path, a, b) for l, a, b in zip(leavesi, x, got) if a != b][:3]
                            _viol(out, "py-decode", "wrong_value", "lib/py/bitprotolib/bp.py:skip", si, sj, feats,
                                  "old Python decoder: encoded %s decoded %s; first differing (path, encoded, decoded) %r" % (x, got, bad), "wire=%s" % w.hex())
                            break
                # ---- C decoder of S_i
                if h is not None:
                    r = row_of[i]
                    try:
                        dec = h.decode_long(r, wires)
                    except cback.HarnessFault as e:
                        _viol(out, "c-decode", "fault", "lib/c/bitproto.c:skip", si, sj, feats, "old C decoder faulted on extended data: %s" % e, e.stderr)
                        h.close()
                        h = cb.harness("std-O2")
                        continue
                    for v, w, x, (flag, img) in zip(vecs, wires, expects, dec):
                        out.count("evaluations")
                        out.count("traces")
                        got = h.unimage(r, leavesi, img)
                        out.outcome("c", tuple(got))
                        if got != x or flag:
                            bad = [(l.path, a, b) for l, a, b in zip(leavesi, x, got) if a != b][:3]
                            _viol(out, "c-decode", "wrong_value" if got != x else "flag%d" % flag, "lib/c/bitproto.c:skip", si, sj, feats,
                                  "old C decoder: encoded %s decoded %s; first differing %r" % (x, got, bad), "wire=%s" % w.hex())
                            break
            out.sample(dict(root=rname, history=[list(map(str, e)) for e in sj["hist"]], new_schema=_text(sj["defs"])[-500:], values=len(vecs),
                            example_wire=wires[-1].hex()))
    finally:
        if h is not None:
            h.close()
        if pymod is not None:
            pymod.unload()


class _CB(cback.CBatch):
    """CBatch over an explicit ProtoFile (all versions in one file)."""

    def __init__(self, cases, workdir, proto):
        import os, shutil
        from ..ir import write_files
        self.cases = cases
        self.dir = workdir
        self.optimize = False
        self.endian = "both"
        os.makedirs(workdir, exist_ok=True)
        self.batch = proto
        write_files(proto, workdir)
        self.texts = cback.render_c_files(os.path.join(workdir, proto.filename), workdir)
        self.macros = cback.bytes_length_macros(self.texts)
        self.gen_c = sorted(n for n in self.texts if n.endswith(".c"))
        self.main_header = proto.stem + "_bp.h"
        with open(os.path.join(workdir, "harness.c"), "w") as f:
            f.write(cback.gen_harness(cases, self.main_header, self.macros))
        shutil.copy(cback.CORE, os.path.join(workdir, "harness_core.c"))
        self.exes = {}


def _pair_features(si, sj, layi, layj):
    f = set()
    evs = sj["hist"][len(si["hist"]):]
    for ev in evs:
        f.add("event:" + ev[0])
    # does the old decoder have to skip > 0 bits?
    if any(e[0] == "append" for e in evs):
        f.add("skip_after_message")
    if any(e[0] == "grow" for e in evs):
        f.add("skip_after_array")
    if ref.nbits(sj["pkt"]) > ref.nbits(si["pkt"]):
        f.add("extended_is_longer")
    return sorted(f)


def _viol(out, check, symptom, site, si, sj, feats, desc, detail):
    out.violation(check=check, symptom=symptom, site=site, features=feats, sig_features=[f for f in feats if f.startswith("event:")],
                  desc="old=%s history_to_new=%s :: %s" % (" / ".join(str(e) for e in si["hist"]) or "root", " / ".join(str(e) for e in sj["hist"]), desc),
                  detail=detail, schema={"old.bitproto": _text(si["defs"]), "new.bitproto": _text(sj["defs"])},
                  replay=dict(kind="c05", old=pack(si["defs"]), new=pack(sj["defs"])))


def run_go_skip(unit):
    """Go runtime (no toolchain): the skip statements of Array.Process and MessageProcessor.Process are
    extracted by gofront and evaluated over the relevant domain against the reference skip rule."""
    from .. import gofront
    out = UnitOut()
    ast = gofront.parse(open(bind.GOLIB).read())
    m = gofront.Machine(ast)
    V = gofront.V

    def skip_block(tname):
        meth = m.methods.get((tname, "Process"))
        if meth is None:
            raise bind.InfraError("lib/go: no method %s.Process" % tname)
        blocks = [s for s in meth[5] if s[0] == "if" and "extensible" in repr(s[2]) and "isEncode" in repr(s[2])]
        if not blocks:
            raise bind.InfraError("lib/go: no skip block in %s.Process" % tname)
        return blocks[-1]

    try:
        arr = skip_block("Array")
        for i in range(0, 40, 3):
            for cap in range(1, 9):
                for ebits in (1, 2, 3, 7, 8, 9, 16, 17, 33, 64, 81):
                    for extra in range(0, 9):
                        ahead = cap + extra
                        env = dict(i=V("int", i), ahead=V("uint16", ahead), t=dict(capacity=V("int", cap), extensible=V("bool", True)),
                                   ctx=dict(i=V("int", i + 16 + cap * ebits), isEncode=V("bool", False)))
                        m.exec(arr, env)
                        got = env["ctx"]["i"].v
                        want = i + 16 + ahead * ebits
                        out.count("evaluations")
                        out.count("traces")
                        out.count("transitions")
                        out.count("go_skip_evaluations")
                        if extra:
                            out.count("nontrivial")
                        if got != want:
                            out.violation(check="go-skip", symptom="wrong_position", site="lib/go/bitproto.go:Array.Process", features=["event:grow"],
                                          desc="Go extensible array skip: start=%d receiver cap=%d element bits=%d announced cap=%d -> cursor %d, expected %d" % (
                                              i, cap, ebits, ahead, got, want), replay=dict(kind="c05-go"))
                            raise StopIteration
    except StopIteration:
        pass
    try:
        msg = skip_block("MessageProcessor")
        for i in range(0, 40, 3):
            for own in (16, 17, 24, 33, 100):
                for extra in range(0, 40, 3):
                    env = dict(i=V("int", i), ahead=V("uint16", own + extra), t=dict(extensible=V("bool", True)),
                               ctx=dict(i=V("int", i + own), isEncode=V("bool", False)))
                    m.exec(msg, env)
                    got = env["ctx"]["i"].v
                    out.count("evaluations")
                    out.count("traces")
                    out.count("transitions")
                    out.count("go_skip_evaluations")
                    if got != i + own + extra:
                        out.violation(check="go-skip", symptom="wrong_position", site="lib/go/bitproto.go:MessageProcessor.Process", features=["event:append"],
                                      desc="Go extensible message skip: start=%d own bits=%d announced=%d -> cursor %d" % (i, own, own + extra, got), replay=dict(kind="c05-go"))
                        raise StopIteration
    except StopIteration:
        pass
    except gofront.GoEvalError as e:
        raise bind.InfraError("gofront cannot evaluate the Go skip statements: %s" % e)
    out.count("states", 2)
    out.sample(dict(kind="go skip statements", evaluated=out.counters["go_skip_evaluations"]))
    return out.result()


def dispatch(unit):
    return run_go_skip(unit) if unit[0] == "GO" else run_unit(unit)


def units(tier):
    return [("R", tier, k) for k in range(len(roots(tier)))] + [("GO", tier)]


GO_SKIP_NOTE = "Go runtime: the skip statements of Array.Process / MessageProcessor.Process are extracted by bpmc/gofront and evaluated over (start, capacity, element bits, announced capacity / size) against the reference skip rule (coverage.go_skip_evaluations)"


def main(pid, tier):
    t0 = time.time()
    acc = Acc()
    acc.merge(run_units(units(tier), dispatch, maxtasks=4))
    c = acc.counters
    g = []
    for need in ("skip_after_message", "skip_after_array", "event:append", "event:grow"):
        if acc.classes.get(need, 0) < 1:
            g.append("no pair of class " + need)
    cov = dict(
        states=c["states"], transitions=c["bfs_transitions"] + c["transitions"], traces_validated_against_impl=c["traces"],
        evaluations=c["evaluations"], distinct_nontrivial=c["nontrivial"], roots=len(roots(tier)), bfs_edges=c["bfs_transitions"],
        go_skip_evaluations=c["go_skip_evaluations"],
        rule="BFS over evolution events (append_field on every extensible message node, grow on every extensible array node) from %d roots to "
             "depth %d with canonical de-duplication; for every ancestor/descendant pair on a BFS path and every BASIS value of the descendant "
             "(walking one/zero over the whole descendant bit string) the ancestor's implementation decoder (Python and C, guard pages) must return "
             "every old leaf; non-trivial = value has a bit set" % (len(roots(tier)), depth(tier)),
        exhaustive=not c["capped"],
        bound="roots x events to depth %d; append types %s; grow deltas %s" % (
            depth(tier), APPEND_TYPES_QUICK if tier == "quick" else APPEND_TYPES_THOROUGH, GROW_QUICK if tier == "quick" else GROW_THOROUGH),
        go_part=GO_SKIP_NOTE,
    )
    return finish(PID, tier, acc, cov, t0, assumptions=["reference encoder = implementation encoders (C01, C03)", "reference skip rule ref.decode_dynamic"],
                  guards=g, capped=("state cap hit in %d roots" % c["capped"]) if c["capped"] else None)


def replay(payload):
    bind.bind()
    r = payload["replay"]
    if r.get("kind") == "c05-go":
        res = run_go_skip(("GO", "quick"))
        print("REPRODUCED: %s" % res["violations"][0]["desc"] if res.get("violations") else "NOT REPRODUCED")
        return 1 if res.get("violations") else 0
    old, new = unpack(r["old"]), unpack(r["new"])
    out = UnitOut()
    o_ir, o_pkt = link(old, "V0")
    n_ir, n_pkt = link(new, "V1")
    states = [dict(defs=old, depth=0, hist=(), ir=o_ir, pkt=o_pkt, ancestors=[]), dict(defs=new, depth=1, hist=(("replay",),), ir=n_ir, pkt=n_pkt, ancestors=[0])]
    with Scratch() as sc:
        _run_chunk("quick", "replay", states, [1], sc, out, "r")
    if out.violations:
        print("REPRODUCED: %s" % out.violations[0].get("desc"))
        return 1
    print("NOT REPRODUCED")
    return 0
