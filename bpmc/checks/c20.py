"""C20: lint is advisory and diagnostics point at the right line."""
import io
import os
import subprocess
import sys
import time

from .. import bind, sym
from ..evidence import finish, pack, unpack
from ..explore import Acc, UnitOut, exc_summary, repo_site, run_units
from ..ir import ConstDef, ProtoFile, Raw, Style, print_proto, write_files
from ..pyback import Scratch, quiet_stderr, render_strings, watchdog
from . import c08, c12

PID = "C20"

PERTURB = {
    "msg": [("lower", lambda n: n.lower() + "x"), ("snake", lambda n: "my_" + n.lower()), ("lowerCamel", lambda n: n[0].lower() + n[1:] + "Thing")],
    "enum": [("lower", lambda n: n.lower() + "x"), ("snake", lambda n: "my_" + n.lower()), ("lowerCamel", lambda n: n[0].lower() + n[1:] + "Kind")],
    "alias": [("lower", lambda n: n.lower() + "x"), ("snake", lambda n: "my_" + n.lower()), ("lowerCamel", lambda n: n[0].lower() + n[1:] + "Type")],
    "field": [("Pascal", lambda n: "Big" + n.capitalize()), ("camelCase", lambda n: n + "Value"), ("UPPER", lambda n: n.upper() + "_X")],
    "const": [("lower", lambda n: n.lower()), ("Mixed", lambda n: n.capitalize() + "x")],
    "member": [("lower", lambda n: n.lower()), ("Mixed", lambda n: n.capitalize() + "x")],
}
WARN_CLASS = {"msg": "MessageNameNotPascal", "enum": "EnumNameNotPascal", "alias": "AliasNameNotPascal", "field": "MessageFieldNameNotSnake",
              "const": "ConstantNameNotUpper", "member": "EnumFieldNameNotUpper"}

STYLES = [
    ("conforming", Style()),
    ("semicolons", Style(semicolon="all")),
    ("shift1", Style(pre_blank=1, blank_between=2)),
    ("shift3", Style(pre_blank=3, blank_between=0, semicolon="mixed")),
    ("crlf", Style(crlf=True)),
    ("trailing-comments", Style(trailing_comments=True)),
    ("escaped-strings", Style(escaped_strings=True, pre_blank=1)),
    ("indent2", Style(indent="  ")),
    ("indent0", Style(indent="")),
    ("tab", Style(indent="\t")),
]
CONFORMING_STYLES = {"conforming", "semicolons", "shift1", "shift3", "crlf", "trailing-comments", "escaped-strings"}


def all_roots():
    """C12's roots plus one that imports TWO files (positions inside the second import)."""
    from collections import OrderedDict
    ids = sym.Ids()
    e = sym.enum(ids, "Mode", 2, [("MODE_OFF", 0), ("MODE_ON", 1)])
    fa = [sym.const(ids, "FIRST_K", 3), e, sym.msg(ids, "Filler", False, [sym.field(("bool",), "a", 1), sym.field(("bool",), "b", 2), sym.field(("bool",), "c", 3)])]
    p2 = sym.msg(ids, "Point", False, [sym.field(("int", 7), "x", 1), sym.field(("int", 7), "y", 2)])
    k2 = sym.const(ids, "WIDTH", 2)
    box = sym.msg(ids, "Box", False, [sym.field(("ref", p2["id"]), "corner", 1), sym.field(sym.arr(("ref", p2["id"]), 2, False, k2["id"], "{K}"), "pts", 2)])
    m = sym.msg(ids, c12.ROOT_MSG, False, [sym.field(("ref", e["id"]), "mode", 1), sym.field(("ref", box["id"]), "box", 2), sym.field(("ref", p2["id"]), "at", 3)])
    two = sym.schema([m], libs=OrderedDict([("firstlib", (None, fa)), ("secondlib", ("sl", [k2, p2, box]))]))
    return c12.roots() + [("import2", two)]


def variants(tier):
    """(root index, perturbation or None, comments?, style index, first_line_def?)"""
    out = []
    roots = all_roots()
    for ri, (rname, root) in enumerate(roots):
        for si, (sname, st) in enumerate(STYLES):
            for comments in (False, True):
                out.append((ri, None, comments, si, False))
        out.append((ri, None, False, 0, True))
        # single name perturbations (conforming style + one shifted style)
        targets = []
        for stem, d, cont, i, path in sym.all_defs(root):
            targets.append((d["kind"], d["id"], None))
            if d["kind"] == "enum":
                targets.append(("member", d["id"], 0))
                targets.append(("nozero", d["id"], None))
            if d["kind"] == "msg":
                for k, it in enumerate(d["items"]):
                    if it["kind"] == "field":
                        targets.append(("field", d["id"], k))
                        break
        for kind, did, sub in targets:
            if kind == "nozero":
                for si in (0, 3, 6):
                    out.append((ri, ("nozero", did, sub, "nozero"), False, si, False))
                continue
            for pname, fn in PERTURB[kind]:
                for si in ((0, 2, 3, 6) if tier == "thorough" else (0, 3, 6)):
                    out.append((ri, (kind, did, sub, pname), si == 3, si, False))
    return out


def apply_variant(root, v):
    ri, pert, comments, si, first_line = v
    s = sym.clone(root)
    expect = []  # (warning class, definition id, sub)
    if comments:
        for _, d, _, _, _ in sym.all_defs(s):
            d["comments"] = ["note on %s" % d["name"]]
            if d["kind"] == "msg":
                for it in d["items"]:
                    if it["kind"] == "field":
                        it["comments"] = ["field note"]
    if pert:
        kind, did, sub, pname = pert
        _, d, _, _, _ = sym.find(s, did)
        if kind == "nozero":
            d["members"] = [(n, v2 if v2 != 0 else max(x for _, x in d["members"]) - 1 if max(x for _, x in d["members"]) - 1 not in [y for _, y in d["members"]] and max(x for _, x in d["members"]) > 1 else v2)
                            for n, v2 in d["members"]]
            if any(v2 == 0 for _, v2 in d["members"]):
                d["members"] = [(n, v2) for n, v2 in d["members"] if v2 != 0] or [("ONLY_ONE", 1)]
            expect.append(("EnumHasNoFieldValue0", did, None))
        else:
            fn = dict(PERTURB[kind])[pname]
            if kind == "member":
                n, val = d["members"][sub]
                d["members"][sub] = (fn(n), val)
            elif kind == "field":
                d["items"][sub]["name"] = fn(d["items"][sub]["name"])
            else:
                d["name"] = fn(d["name"])
            expect.append((WARN_CLASS[kind], did, sub))
    return s, expect


def collect_warnings(proto):
    import bitproto.linter as L
    got = []
    saved = L.warning
    L.warning = lambda w=None: got.append(w) if w is not None else None
    try:
        n = L.lint(proto)
    finally:
        L.warning = saved
    return n, got


def def_positions(parsed, fname_filter=None):
    """[(path tuple, lineno, col, token)] of every definition bound to the proto."""
    from bitproto._ast import Alias, Constant, Enum, EnumField, Message, MessageField, Proto
    out = []

    def rec(scope, path):
        for name, m in scope.members.items():
            if isinstance(m, Proto):
                continue
            if isinstance(m, (Alias, Constant, Enum, EnumField, Message, MessageField)):
                out.append((path + (m.name,), m.lineno, m.token_col_start, m.token))
            if isinstance(m, (Enum, Message)):
                rec(m, path + (m.name,))

    rec(parsed, ())
    return out


def run_unit(unit):
    _, tier, lo, hi = unit
    bind.bind()
    from bitproto.parser import parse
    vs = variants(tier)[lo:hi]
    roots = all_roots()
    out = UnitOut()
    with Scratch() as sc:
        for k, v in enumerate(vs):
            ri, pert, comments, si, first_line = v
            rname, root = roots[ri]
            sname, style = STYLES[si]
            s, expect = apply_variant(root, v)
            proto_ir, built = sym.link(s)
            if first_line:
                # a definition on line 1: the proto statement comes second
                proto_ir = ProtoFile(None, proto_ir.stem, proto_ir.imports, (ConstDef("FIRST_LINE", 1), Raw("proto %s" % proto_ir.stem)) + proto_ir.items)
            d = sc.sub("v%d" % k)
            maps = write_files(proto_ir, d, style)
            path = os.path.join(d, proto_ir.filename)
            out.count("states")
            out.count("transitions")
            out.cls("style:" + sname)
            if pert:
                out.cls("perturb:" + pert[0])
                out.count("nontrivial")
            desc = "root %s style %s comments=%s perturbation=%s first_line_def=%s" % (rname, sname, comments, pert and (pert[0], pert[3]), first_line)
            files = {fn: tx for fn, (tx, m) in maps.items()}

            def viol(check, symptom, detail, site="compiler/bitproto/linter.py"):
                out.violation(check=check, symptom=symptom, site=site, features=["style:" + sname], sig_features=[symptom, sname if check == "position" else ""],
                              desc=desc + " :: " + detail[:400], detail=detail, schema=files, replay=dict(kind="c20", variant=pack(v)))

            try:
                with watchdog(60), quiet_stderr():
                    parsed = parse(path)
                    nwarn, warns = collect_warnings(parsed)
                    outs_lint = {l: render_strings(parsed, l) for l in ("c", "py", "go")}
                    parsed2 = parse(path)
                    outs_nolint = {l: render_strings(parsed2, l) for l in ("c", "py", "go")}
            except BaseException as e:  # noqa
                viol("pipeline", type(e).__name__, exc_summary(e), repo_site(e))
                continue
            out.count("evaluations", 3)
            out.count("traces")
            # (1) advisory: identical output with and without lint
            if outs_lint != outs_nolint:
                viol("advisory", "lint_changes_output", "generated text differs after lint() ran on the parsed schema")
            # (2)/(3) warnings
            text, smap = maps[proto_ir.filename]
            id_path = {}
            for stem2, d2, cont2, i2, p2 in sym.all_defs(s):
                if stem2 == s["main"]:
                    id_path[d2["id"]] = p2 + (d2["name"],)
            expected_lines = {}
            for cls, did, sub in expect:
                p = id_path.get(did)
                if p is None:
                    continue
                _, dd, _, _, _ = sym.find(s, did)
                if cls == "EnumFieldNameNotUpper":
                    p = p + (dd["members"][sub][0],)
                elif cls == "MessageFieldNameNotSnake":
                    p = p + (dd["items"][sub]["name"],)
                expected_lines[cls] = smap.defs[tuple(p)]["line"]
            got = [(type(w).__name__, os.path.basename(w.filepath), w.lineno) for w in warns]
            # a second definition on one line cannot be "indented by 4 x depth": an IndentWarning THERE is not demanded either way
            same_line = {m2["line"] for p2, m2 in smap.defs.items() if str(p2[-1]).startswith("STYLE_K_")}
            got = [g for g in got if not (g[0] == "IndentWarning" and g[2] in same_line)]
            non_indent = [g for g in got if g[0] != "IndentWarning"]
            if sname in CONFORMING_STYLES:
                if not pert and got and not first_line:
                    viol("lint", "warning_on_conforming_schema", "warnings %r" % (got[:5],))
                for cls, line in expected_lines.items():
                    if (cls, proto_ir.filename, line) not in got:
                        viol("lint", "missing_or_misplaced_warning", "expected %s at %s:L%d, got %r" % (cls, proto_ir.filename, line, got[:6]))
                extra = [g for g in non_indent if (g[0], g[2]) not in [(c, l) for c, l in expected_lines.items()]]
                if pert and extra:
                    viol("lint", "unexpected_warning", "perturbed only %r but got %r" % (list(expected_lines.items()), extra[:5]))
            out.outcome(sname, tuple(got), bool(pert))
            if nwarn != len(warns):
                viol("lint", "warning_count_mismatch", "lint() returned %d but emitted %d warnings" % (nwarn, len(warns)))
            # (4) positions of definitions and references
            base = None
            mism = []
            for p, line, col, token in def_positions(parsed):
                m = smap.defs.get(tuple(p))
                if m is None:
                    continue
                out.count("positions")
                if line != m["line"]:
                    mism.append(("line", p, line, m["line"]))
                    continue
                off = col - m["col"]
                if line >= 2:
                    if base is None:
                        base = off
                    elif off != base:
                        mism.append(("column", p, col, m["col"] + base))
            for p, line, col, token in def_positions(parsed):
                m = smap.defs.get(tuple(p))
                if m is not None and line == 1 and line == m["line"] and base is not None and col - m["col"] != base:
                    mism.append(("column-on-line-1", p, col, m["col"] + base))
            refs = sorted((r.lineno, r.token_col_start, r.token) for r in parsed.references if os.path.basename(r.filepath) == proto_ir.filename)
            mrefs = sorted((r["line"], r["col"] + (base or 0), r["token"]) for r in smap.refs)
            out.count("positions", len(refs))
            if refs != mrefs:
                bad = [x for x in refs if x not in mrefs][:3]
                mism.append(("references", bad, [x for x in mrefs if x not in refs][:3], None))
            # definitions and references inside every imported file, against that file's own source map
            for iname, child in parsed.protos(recursive=True):
                cfn = os.path.basename(child.filepath)
                if cfn not in maps:
                    continue
                ctext, cmap = maps[cfn]
                for p, line, col, token in def_positions(child):
                    m = cmap.defs.get(tuple(p))
                    if m is None:
                        continue
                    out.count("positions")
                    if line != m["line"] or (base is not None and line >= 2 and col - m["col"] != base):
                        mism.append(("imported-file:" + cfn, p, (line, col), (m["line"], m["col"] + (base or 0))))
                crefs = sorted((r.lineno, r.token_col_start, r.token) for r in child.references if os.path.basename(r.filepath) == cfn)
                cmrefs = sorted((r["line"], r["col"] + (base or 0), r["token"]) for r in cmap.refs)
                if crefs != cmrefs:
                    mism.append(("imported-file-references:" + cfn, [x for x in crefs if x not in cmrefs][:3], [x for x in cmrefs if x not in crefs][:3], None))
            if mism:
                kinds = sorted(set(m[0].split(":")[0] for m in mism))
                viol("position", "wrong_position:" + "+".join(kinds), "recorded vs source map: %r" % (mism[:4],), "compiler/bitproto/parser.py:_get_col")
            if k % 40 == 0:
                out.sample(dict(root=rname, style=sname, perturbation=pert and [pert[0], pert[3]], warnings=got[:3], definitions=len(smap.defs), references=len(refs)))
    return out.result()


def run_errors(unit):
    """Every catalogue violation of C08 at line shifts 0..3: the parser error cites the right line."""
    _, tier, lo, hi = unit
    bind.bind()
    from bitproto.errors import ParserError
    from bitproto.parser import parse
    cs = [c for c in error_cases(tier)][lo:hi]
    out = UnitOut()
    with Scratch() as sc:
        for k, case in enumerate(cs):
            d = sc.sub("e%d" % k)
            files, target, span = c08.materialise(case)
            for fn, tx in files.items():
                os.makedirs(os.path.dirname(os.path.join(d, fn)), exist_ok=True)
                with open(os.path.join(d, fn), "w") as f:
                    f.write(tx)
            out.count("states")
            out.count("transitions")
            out.count("evaluations")
            out.count("traces")
            out.count("nontrivial")
            out.cls("error-shift:%d" % case["shift"])
            err = None
            try:
                with watchdog(30), quiet_stderr():
                    parse(os.path.join(d, "t.bitproto"))
            except ParserError as e:
                err = e
            except BaseException as e:  # noqa
                out.violation(check="error-position", symptom=type(e).__name__, site=repo_site(e), features=[], sig_features=[case["tag"]],
                              desc="%s shift=%d: escaped with %s" % (case["tag"], case["shift"], type(e).__name__), schema=files)
                continue
            if err is None:
                continue  # acceptance is C08's business
            ef, el = os.path.basename(err.filepath or ""), err.lineno
            lo_, hi_ = span
            ok = (ef == target and lo_ <= el <= hi_) or (case["tag"].startswith("import:cycle") and ef in ("cyc.bitproto", "cyc2.bitproto"))
            if not ok:
                out.violation(check="error-position", symptom="wrong_location", site="errors:" + type(err).__name__, features=[], sig_features=[case["tag"]],
                              desc="%s at %s shift=%d: %s cites %s:L%s, construct on %s lines %d..%d" % (case["tag"], case["slot"][:2], case["shift"], type(err).__name__, ef, el, target, lo_, hi_),
                              schema=files, replay=dict(kind="c20-err", case=case))
    out.sample(dict(kind="errors", n=len(cs)))
    return out.result()


def error_cases(tier):
    shifts = (1, 2, 3) if tier == "quick" else (0, 1, 2, 3, 5)
    out = []
    for v in c08.V:
        if v["accept"]:
            continue
        slots = c08.SLOTS[v["kind"]]
        for fname, slot, depth in slots:
            if v["only"] and slot not in v["only"] and fname not in v["only"]:
                continue
            for sh in shifts:
                out.append(dict(v, slot=(fname, slot, depth), shift=sh))
    if tier == "quick":
        out = out[::2]
    return out


def run_cli(unit):
    """(5) check-only mode exits non-zero exactly when there is an error or at least one warning."""
    out = UnitOut()
    env = dict(os.environ, PYTHONPATH=bind.COMPILER_DIR)
    roots = all_roots()
    cases = []
    for ri in (0, 1, 2, 5):
        cases.append((ri, None, False, 0, False, "clean", 0))
        cases.append((ri, None, False, 5, False, "indent-warnings", None))
    for v in variants("quick"):
        if v[1] and v[3] == 0 and len(cases) < 40:
            cases.append(v + ("warning", 1))
    with Scratch() as sc:
        for k, c in enumerate(cases):
            v, label, want = c[:5], c[5], c[6]
            rname, root = roots[v[0]]
            s, expect = apply_variant(root, v)
            proto_ir, _ = sym.link(s)
            d = sc.sub("c%d" % k)
            write_files(proto_ir, d, STYLES[v[3]][1])
            r = subprocess.run([sys.executable, "-m", "bitproto._main", "-c", proto_ir.filename], cwd=d, capture_output=True, text=True, env=env, timeout=120)
            nwarn = r.stderr.count("warning:")
            out.count("states")
            out.count("transitions")
            out.count("evaluations")
            out.count("traces")
            out.count("cli_runs")
            expect_nonzero = nwarn > 0 or "error:" in r.stderr
            if (r.returncode != 0) != expect_nonzero or (want is not None and (r.returncode != 0) != bool(want)):
                out.violation(check="check-mode", symptom="wrong_exit_status", site="compiler/bitproto/_main.py", features=[], sig_features=[label],
                              desc="-c on %s (%s): exit %d with %d warning line(s); stderr %r" % (rname, label, r.returncode, nwarn, r.stderr[-200:]))
        # an invalid schema
        d = sc.sub("bad")
        with open(os.path.join(d, "t.bitproto"), "w") as f:
            f.write("proto t\nmessage M {\n    Nope x = 1\n}\n")
        r = subprocess.run([sys.executable, "-m", "bitproto._main", "-c", "t.bitproto"], cwd=d, capture_output=True, text=True, env=env, timeout=120)
        out.count("cli_runs")
        if r.returncode == 0 or "t.bitproto:L3" not in r.stderr:
            out.violation(check="check-mode", symptom="wrong_exit_status", site="compiler/bitproto/_main.py", features=[], desc="-c on an invalid schema: exit %d stderr %r" % (r.returncode, r.stderr[-200:]))
    out.sample(dict(kind="cli", runs=len(cases) + 1))
    return out.result()


def dispatch(unit):
    if unit[0] == "E":
        return run_errors(unit)
    if unit[0] == "CLI":
        return run_cli(unit)
    return run_unit(unit)


def units(tier):
    n = len(variants(tier))
    us = [("P", tier, i, min(n, i + 40)) for i in range(0, n, 40)]
    m = len(error_cases(tier))
    us += [("E", tier, i, min(m, i + 60)) for i in range(0, m, 60)]
    us.append(("CLI", tier))
    return us


def main(pid, tier):
    t0 = time.time()
    acc = Acc()
    acc.merge(run_units(units(tier), dispatch, maxtasks=20))
    c = acc.counters
    g = []
    for need in ["style:" + n for n, _ in STYLES] + ["perturb:" + k for k in ("msg", "enum", "alias", "field", "const", "member", "nozero")] + ["error-shift:1", "error-shift:3"]:
        if acc.classes.get(need, 0) < 1:
            g.append("no case of " + need)
    cov = dict(states=c["states"], transitions=c["transitions"], traces_validated_against_impl=c["traces"], evaluations=c["evaluations"],
               distinct_nontrivial=c["nontrivial"], positions_compared=c["positions"], cli_subprocess_runs=c["cli_runs"],
               rule="style-guide-named roots x {8 print styles (semicolons, blank-line shifts, CRLF, indentation 4/2/0/tab) x comment lines on every "
                    "item, a definition on line 1} and x every single name perturbation (message/enum/alias -> lower, snake, lowerCamel; field -> Pascal, "
                    "camelCase, UPPER; constant/member -> lower, Mixed; enum without zero member); every C08 catalogue violation at every slot x line "
                    "shifts; oracle: (1) generated text identical with/without lint, (2) conforming => no warning, (3) perturbed definition => warning of "
                    "the matching class at the definition's line in the printer's source map and no other non-indent warning, (4) lineno/column of every "
                    "definition and reference equal to the source map with one column base for all lines, (5) -c exit status; non-trivial = perturbed or "
                    "invalid schema", exhaustive=True, bound="%d variants + %d error cases" % (len(variants(tier)), len(error_cases(tier))))
    return finish(PID, tier, acc, cov, t0, assumptions=["the printer's source map (bpmc/ir.py) is the oracle for lines and columns"], guards=g)


def replay(payload):
    bind.bind()
    import bpmc.checks.c20 as me
    r = payload["replay"]
    if r["kind"] == "c20":
        v = unpack(r["variant"])
        saved = me.variants
        me.variants = lambda tier: [v]
        try:
            res = run_unit(("P", "quick", 0, 1))
        finally:
            me.variants = saved
    else:
        case = r["case"]
        case["slot"] = tuple(case["slot"])
        saved = me.error_cases
        me.error_cases = lambda tier: [case]
        try:
            res = run_errors(("E", "quick", 0, 1))
        finally:
            me.error_cases = saved
    if res.get("violations"):
        print("REPRODUCED: %s" % res["violations"][0].get("desc"))
        return 1
    print("NOT REPRODUCED")
    return 0
