"""C13: constants evaluate arithmetically and reach every target language intact."""
import itertools
import os
import re
import subprocess
import time

from .. import bind
from ..evidence import finish, pack, unpack
from ..explore import Acc, UnitOut, exc_summary, repo_site, run_units
from ..pyback import Scratch, parse_file, quiet_stderr, render_strings, watchdog

PID = "C13"
PER_FILE = 150


# ------------------------------------------------------------- independent evaluator
class EvalError(Exception):
    pass


def tokenize(text):
    toks = re.findall(r"0[xX][0-9a-fA-F]+|[0-9]+|[A-Za-z_][A-Za-z0-9_.]*|[-+*/()]", text)
    if "".join(toks) != text.replace(" ", ""):
        raise EvalError("lex")
    return toks


def evaluate(text, env):
    """Usual precedence (* / over + -), left association, parentheses, integer division.
    Returns (value, negative_inexact_division_seen, div_by_zero)."""
    toks = tokenize(text)
    pos = [0]
    flags = {"neg_inexact": False}

    def peek():
        return toks[pos[0]] if pos[0] < len(toks) else None

    def take():
        t = toks[pos[0]]
        pos[0] += 1
        return t

    def atom():
        t = take()
        if t == "(":
            v = expr()
            if take() != ")":
                raise EvalError("paren")
            return v
        if re.fullmatch(r"0[xX][0-9a-fA-F]+", t):
            return int(t, 16)
        if t.isdigit():
            return int(t, 10)
        if t in env:
            return env[t]
        raise EvalError("atom " + t)

    def term():
        v = atom()
        while peek() in ("*", "/"):
            op = take()
            r = atom()
            if op == "*":
                v = v * r
            else:
                if r == 0:
                    raise ZeroDivisionError()
                if (v < 0) != (r < 0) and v % r != 0:
                    flags["neg_inexact"] = True
                v = v // r
        return v

    def expr():
        v = term()
        while peek() in ("+", "-"):
            op = take()
            r = term()
            v = v + r if op == "+" else v - r
        return v

    v = expr()
    if pos[0] != len(toks):
        raise EvalError("trailing")
    return v, flags["neg_inexact"]


# ---------------------------------------------------------------------- expression space
LITS_FULL = ["0", "1", "2", "3", "7", "10", "0x10", "255", "65535", "4294967296", "0xfF", "0x0a", "9007199254740993", "0x7FFFFFFFFFFFFFFF", "007", "0x00Ff", "0xABCDEF", "0xabcdef", "2147483648", "18446744073709551615"]
LITS_SMALL = ["2", "3", "7", "10", "0x10"]
OPS = ["+", "-", "*", "/"]


def expr_space(tier):
    """All expressions with <= k operators: every operand choice, every operator choice, every
    parenthesisation (as explicit groups) - de-duplicated by text, simplest first."""
    seen, out = set(), []

    def add(t):
        if t not in seen:
            seen.add(t)
            out.append(t)

    refs = ["A1", "A2", "lib.B1", "al.B2"]
    atoms_full = LITS_FULL + refs
    atoms_small = LITS_SMALL + ["A1", "lib.B1"]
    for a in atoms_full:
        add(a)
        add("(%s)" % a)
    for a, op, b in itertools.product(atoms_full, OPS, atoms_full):
        add("%s %s %s" % (a, op, b))
    two = atoms_full if tier == "thorough" else LITS_FULL[:10] + ["A1", "9007199254740993"]
    for a, o1, b, o2, c in itertools.product(two, OPS, two, OPS, two):
        add("%s %s %s %s %s" % (a, o1, b, o2, c))
        add("%s %s (%s %s %s)" % (a, o1, b, o2, c))
        add("(%s %s %s) %s %s" % (a, o1, b, o2, c))
    three = atoms_small if tier == "thorough" else LITS_SMALL[:4]
    for a, o1, b, o2, c, o3, d in itertools.product(three, OPS, three, OPS, three, OPS, three):
        add("%s %s %s %s %s %s %s" % (a, o1, b, o2, c, o3, d))
        if tier == "thorough" or (o1, o3) in (("*", "/"), ("-", "-"), ("/", "*"), ("+", "*")):
            add("%s %s (%s %s %s) %s %s" % (a, o1, b, o2, c, o3, d))
            add("(%s %s %s) %s (%s %s %s)" % (a, o1, b, o2, c, o3, d))
            add("%s %s (%s %s (%s %s %s))" % (a, o1, b, o2, c, o3, d))
            add("((%s %s %s) %s %s) %s %s" % (a, o1, b, o2, c, o3, d))
    if tier == "thorough":
        four = LITS_SMALL[:3]
        for combo in itertools.product(four, OPS, four, OPS, four, OPS, four, OPS, four):
            add(" ".join(combo))
    return out


ENV = {"A1": 6, "A2": 1000, "lib.B1": 9, "al.B2": 4}

LIB_TEXT = "proto lib\n\nconst B1 = 9\n"
LIA_TEXT = "proto lia\n\nconst B2 = 4\n"

STR_ALPHA = [("a", "a"), (" ", " "), ('\\"', '"'), ("\\\\", "\\"), ("'", "'"), ("\\'", "'"), ("\\t", "\t"), ("\\n", "\n"), ("\\r", "\r"),
             ("\t", "\t"), ("%", "%"), ("/", "/"), ("*", "*"), ("{", "{"), ("\u00e9", "\u00e9"),
             ("\u4e2d", "\u4e2d"), ("\U0001f600", "\U0001f600")]  # BMP and beyond-BMP characters (one code point each, 3 / 4 bytes of UTF-8)


def string_space(tier):
    n = 2 if tier == "quick" else 3
    out = [("", "")]
    for k in range(1, n + 1):
        for combo in itertools.product(STR_ALPHA, repeat=k):
            out.append(("".join(c[0] for c in combo), "".join(c[1] for c in combo)))
    return out


def go_unquote(lit):
    """Value of a Go interpreted string literal, or None when it is not one."""
    if len(lit) < 2 or lit[0] != '"' or lit[-1] != '"':
        return None
    s, i, out = lit[1:-1], 0, []
    esc = {"n": "\n", "t": "\t", "r": "\r", "\\": "\\", '"': '"', "a": "\a", "b": "\b", "f": "\f", "v": "\v"}
    while i < len(s):
        ch = s[i]
        if ch == '"' or ch == "\n":
            return None
        if ch == "\\":
            i += 1
            if i < len(s) and s[i] in "uUx":
                n = {"u": 4, "U": 8, "x": 2}[s[i]]
                hx = s[i + 1:i + 1 + n]
                if len(hx) != n or not re.fullmatch(r"[0-9a-fA-F]+", hx) or (s[i] == "x" and int(hx, 16) > 0x7F) or 0xD800 <= int(hx, 16) <= 0xDFFF or int(hx, 16) > 0x10FFFF:
                    return None  # not a valid Go escape for one code point (surrogate halves are rejected by the Go compiler)
                out.append(chr(int(hx, 16)))
                i += n + 1
                continue
            if i >= len(s) or s[i] not in esc:
                return None
            out.append(esc[s[i]])
        else:
            out.append(ch)
        i += 1
    return "".join(out)


# ---------------------------------------------------------------------------- execution
def write(path, text):
    with open(path, "w", newline="") as f:
        f.write(text)


def _viol(out, check, symptom, site, desc, detail="", files=None, feats=()):
    out.violation(check=check, symptom=symptom, site=site, features=list(feats), desc=desc, detail=detail, schema=files,
                  replay=dict(kind="c13", files=files, check=check))


def run_exprs(unit):
    _, tier, lo, hi = unit
    exprs = expr_space(tier)[lo:hi]
    out = UnitOut()
    items = []
    for e in exprs:
        try:
            v, neg = evaluate(e, ENV)
        except ZeroDivisionError:
            out.count("skipped_division_by_zero")  # rejection of x/0 is C09's business
            continue
        if abs(v) >= 1 << 63:
            out.count("skipped_beyond_int64")
            continue
        items.append((e, v, neg))
    with Scratch() as sc:
        d = sc.dir
        write(os.path.join(d, "lib.bitproto"), LIB_TEXT)
        write(os.path.join(d, "lia.bitproto"), LIA_TEXT)
        # booleans before and after the integers (1 == True and 0 == False in Python: nothing may confuse them), a string in between
        lines = ["proto t", "", 'import "lib.bitproto"', 'import al "lia.bitproto"', "", "const A1 = 6", "const A2 = 1000", "", "const YES0 = true", "const NO0 = false", ""]
        for k, (e, v, neg) in enumerate(items):
            lines.append("const K%d = %s" % (k, e))
        lines += ["const YES1 = yes", "const NO1 = no", 'const ONE_S = "1"', "const ONE_AGAIN = 1", "const ZERO_AGAIN = 0", "const YES2 = YES0", "const ONE_REF = ONE_AGAIN"]
        # (d) evaluated values as array capacities / option values
        caps = [(k, v) for k, (e, v, neg) in enumerate(items) if 1 <= v <= 300 and not neg][:25]
        for k, v in caps:
            lines.append("message M%d {\n    option max_bytes = K%d\n    bool[K%d] f = 1\n}" % (k, k, k))
        text = "\n".join(lines) + "\n"
        path = os.path.join(d, "t.bitproto")
        write(path, text)
        files = {"t.bitproto": text, "lib.bitproto": LIB_TEXT, "lia.bitproto": LIA_TEXT}
        try:
            with watchdog(120):
                proto = parse_file(path)
                consts = dict((n, c.value) for n, c in proto.constants(recursive=False))
                outs = {lang: "\n".join(render_strings(proto, lang).values()) for lang in ("c", "go", "py")}
                # optimization mode emits the same constants (the schema has no extensible type)
                outs["go-O"] = "\n".join(render_strings(proto, "go", optimization_mode=True).values())
                outs["c-O"] = "\n".join(render_strings(proto, "c", optimization_mode=True).values())
        except Exception as e:
            _viol(out, "pipeline", type(e).__name__, repo_site(e), "constant file failed to parse/render: %s" % str(e)[:300], exc_summary(e), files)
            return out.result()
        out.count("states", len(items))
        # parsed values
        bad_c = []
        for k, (e, v, neg) in enumerate(items):
            got = consts.get("K%d" % k)
            out.count("evaluations")
            out.count("traces")
            out.count("transitions")
            if v != 0:
                out.count("nontrivial")
            ok = got == v or (neg and got in (v, v + 1))
            if neg:
                out.count("negative_inexact_division_both_accepted")
            out.outcome(e, got)
            if not ok:
                _viol(out, "evaluate", "wrong_value", "compiler/bitproto/parser.py:calculation", "const = %s evaluates to %r, expected %r" % (e, got, v), "", files,
                      feats=["expr"])
                continue
            # emitted literals
            gv = got
            m = re.search(r"^K%d: int = (-?\d+)$" % k, outs["py"], re.M)
            if not m or int(m.group(1)) != gv:
                _viol(out, "emit-py", "wrong_literal", "py:constant", "K%d = %s (= %d): python literal %r" % (k, e, gv, m.group(0) if m else None), "", files)
            m = re.search(r"^const K%d(?: \w+)? = (-?\d+)$" % k, outs["go"], re.M)
            if not m or int(m.group(1)) != gv:
                _viol(out, "emit-go", "wrong_literal", "go:constant", "K%d = %s (= %d): go literal %r" % (k, e, gv, m.group(0) if m else None), "", files)
            m = re.search(r"^#define K%d (-?\d+)$" % k, outs["c"], re.M)
            if not m or int(m.group(1)) != gv:
                _viol(out, "emit-c", "wrong_literal", "c:constant", "K%d = %s (= %d): C macro %r" % (k, e, gv, m.group(0) if m else None), "", files)
            m = re.search(r"^const K%d(?: \w+)? = (-?\d+)$" % k, outs["go-O"], re.M)
            if not m or int(m.group(1)) != gv:
                _viol(out, "emit-go", "wrong_literal_optimization_mode", "go:constant", "K%d = %s (= %d): go -O literal %r" % (k, e, gv, m.group(0) if m else None), "", files)
            m = re.search(r"^#define K%d (-?\d+)$" % k, outs["c-O"], re.M)
            if not m or int(m.group(1)) != gv:
                _viol(out, "emit-c", "wrong_literal_optimization_mode", "c:constant", "K%d = %s (= %d): C -O macro %r" % (k, e, gv, m.group(0) if m else None), "", files)
        for name, kind, want in (("YES0", "bool", True), ("NO0", "bool", False), ("YES1", "bool", True), ("NO1", "bool", False), ("YES2", "bool", True),
                                 ("ONE_AGAIN", "int", 1), ("ZERO_AGAIN", "int", 0), ("ONE_REF", "int", 1)):
            out.count("evaluations", 4)
            got = consts.get(name)
            if type(got) is not type(want) or got != want:
                _viol(out, "evaluate", "wrong_value", "compiler/bitproto/parser.py", "const %s evaluates to %r, expected %r" % (name, got, want), "", files)
                continue
            pl, gl, cl = ("True", "true", "true") if want is True else ("False", "false", "false") if want is False else (str(want),) * 3
            if not re.search(r"^%s: %s = %s$" % (name, kind, pl), outs["py"], re.M):
                _viol(out, "emit-py", "wrong_literal", "py:constant", "%s (%r): python line %r" % (name, want, re.findall(r"^%s.*$" % name, outs["py"], re.M)[:1]), "", files)
            if not re.search(r"^const %s(?: \w+)? = %s$" % (name, gl), outs["go"], re.M):
                _viol(out, "emit-go", "wrong_literal", "go:constant", "%s (%r): go line %r" % (name, want, re.findall(r"^const %s.*$" % name, outs["go"], re.M)[:1]), "", files)
            if not re.search(r"^#define %s %s$" % (name, cl), outs["c"], re.M):
                _viol(out, "emit-c", "wrong_literal", "c:constant", "%s (%r): C line %r" % (name, want, re.findall(r"^#define %s .*$" % name, outs["c"], re.M)[:1]), "", files)
        # capacities and option values
        for k, v in caps:
            msg = proto.get_member("M%d" % k)
            f = msg.fields()[0]
            got_cap = f.type.cap
            got_opt = msg.get_option_as_int_or_raise("max_bytes")
            out.count("evaluations", 2)
            if got_cap != v or got_opt != v:
                _viol(out, "capacity", "wrong_value", "compiler/bitproto/parser.py:capacity", "K%d = %s (= %d) used as capacity gives %r, as max_bytes gives %r" % (
                    k, items[k][0], v, got_cap, got_opt), "", files)
        # C: compile a probe that static-asserts every macro; Python: import the module
        probe = ['#include "t_bp.h"'] + ["_Static_assert((K%d) == (%dLL), \"K%d\");" % (k, consts["K%d" % k], k) for k, (e, v, neg) in enumerate(items)
                                          if consts.get("K%d" % k) is not None and abs(consts["K%d" % k]) < (1 << 63)] + ["int main(void){return 0;}"]
        from ..cback import render_c_files
        try:
            render_c_files(path, d)
            write(os.path.join(d, "probe.c"), "\n".join(probe) + "\n")
            r = subprocess.run(["gcc", "-std=gnu11", "-w", "-fsyntax-only", "-I", d, "-I", bind.CLIB_DIR, os.path.join(d, "probe.c")], capture_output=True, text=True)
            out.count("c_probes")
            if r.returncode:
                _viol(out, "emit-c", "static_assert_failed", "c:constant", "C macros do not denote the evaluated values: %s" % r.stderr[:400], r.stderr[-1500:], files)
        except Exception as e:
            _viol(out, "pipeline", type(e).__name__, repo_site(e), "C rendering of constant file failed", exc_summary(e), files)
        try:
            from ..pyback import render_all_files, PyModuleSet
            render_all_files(path, "py", d)
            ms = PyModuleSet(d, "t")
            mod = ms.load()
            for k, (e, v, neg) in enumerate(items):
                pv = getattr(mod, "K%d" % k, None)
                out.count("evaluations")
                if pv != consts.get("K%d" % k) or type(pv) is not int:
                    _viol(out, "emit-py", "wrong_value_at_runtime", "py:constant", "K%d = %s: imported module has %r" % (k, e, pv), "", files)
            ms.unload()
        except Exception as e:
            _viol(out, "pipeline", type(e).__name__, repo_site(e), "python module of constant file failed to import", exc_summary(e), files)
        out.sample(dict(kind="expressions", first=items[:3], n=len(items)))
    return out.result()


def run_strings(unit):
    _, tier, lo, hi = unit
    strs = string_space(tier)[lo:hi]
    out = UnitOut()
    with Scratch() as sc:
        d = sc.dir
        lines = ["proto t", ""]
        for k, (src, val) in enumerate(strs):
            # every third string is followed, on the same line, by a comment that itself contains quotes;
            # every fifth shares its line with the next statement
            tail = ' // the peer says "ok" and "bye"' if k % 3 == 1 else ('; const T%d = "t"' % k if k % 5 == 2 else "")
            lines.append('const S%d = "%s"%s' % (k, src, tail))
        for k, sp in enumerate(("true", "false", "yes", "no")):
            lines.append("const B%d = %s" % (k, sp))
        text = "\n".join(lines) + "\n"
        path = os.path.join(d, "t.bitproto")
        write(path, text)
        files = {"t.bitproto": text}
        try:
            proto = parse_file(path)
            consts = dict((n, c.value) for n, c in proto.constants(recursive=False))
            outs = {lang: render_strings(proto, lang) for lang in ("c", "go", "py")}
        except Exception as e:
            _viol(out, "pipeline", type(e).__name__, repo_site(e), "string constant file failed to parse/render", exc_summary(e), files)
            return out.result()
        out.count("states", len(strs) + 4)
        # optimization mode emits the same constants: every Go literal of the -O output must DENOTE the value the standard one denotes
        # (the C -O header goes through the same compile-and-print probe as the standard header, below)
        try:
            go_o = "\n".join(render_strings(proto, "go", optimization_mode=True).values())
            cre = re.compile(r"^const (\w+)(?: \w+)? = (.*)$", re.M)
            std_map = {n: l for n, l in cre.findall("\n".join(outs["go"].values())) if not n.startswith("BYTES_LENGTH")}
            opt_map = dict(cre.findall(go_o))
            bad = []
            for n, lit in std_map.items():
                if n not in opt_map:
                    bad.append("%s is not emitted" % n)
                elif opt_map[n] != lit and (go_unquote(opt_map[n]) is None or go_unquote(opt_map[n]) != go_unquote(lit)):
                    bad.append("%s = %s, standard mode has %s" % (n, opt_map[n], lit))
            if bad:
                _viol(out, "emit-opt", "constants_differ_in_optimization_mode", "go renderer -O", "go -O: %r" % bad[:4], "", files)
        except Exception as e:
            _viol(out, "pipeline", type(e).__name__, repo_site(e), "-O rendering of the string constant file failed", exc_summary(e), files)
        pytext = "\n".join(outs["py"].values())
        gotext = "\n".join(outs["go"].values())
        htext = "\n".join(v for k, v in outs["c"].items() if k.endswith(".h"))
        # booleans
        for k, want in enumerate((True, False, True, False)):
            out.count("evaluations", 4)
            out.count("traces")
            if consts.get("B%d" % k) is not want:
                _viol(out, "evaluate", "wrong_bool", "lexer", "B%d parsed as %r" % (k, consts.get("B%d" % k)), "", files)
            if not re.search(r"^B%d: bool = %s$" % (k, "True" if want else "False"), pytext, re.M):
                _viol(out, "emit-py", "wrong_bool", "py:constant", "B%d python literal" % k, "", files)
            if not re.search(r"^const B%d(?: \w+)? = %s$" % (k, "true" if want else "false"), gotext, re.M):
                _viol(out, "emit-go", "wrong_bool", "go:constant", "B%d go literal" % k, "", files)
            if not re.search(r"^#define B%d %s$" % (k, "true" if want else "false"), htext, re.M):
                _viol(out, "emit-c", "wrong_bool", "c:constant", "B%d C literal" % k, "", files)
        # python: evaluate the emitted literal; go: lex it; C: compile and print the bytes
        c_probe = ['#include <stdio.h>', '#include "t_bp.h"', "static void d(const char*n,const char*s,unsigned long l){printf(\"%s \",n);for(unsigned long i=0;i<l;i++)printf(\"%02x\",(unsigned char)s[i]);printf(\"\\n\");}",
                   "int main(void){"]
        for k, (src, val) in enumerate(strs):
            out.count("evaluations", 4)
            out.count("traces")
            out.count("transitions")
            if val:
                out.count("nontrivial")
            feats = ["str"] + (["needs_escape"] if any(ch in val for ch in '"\\\n\r\t') else [])
            if consts.get("S%d" % k) != val:
                _viol(out, "evaluate", "wrong_string", "compiler/bitproto/lexer.py:t_STRING_LITERAL", "S%d = \"%s\" lexed as %r expected %r" % (k, src, consts.get("S%d" % k), val), "", files, feats)
                continue
            m = re.search(r"^S%d: str = (.*)$" % k, pytext, re.M)
            pv = None
            if m:
                try:
                    pv = eval(m.group(1), {}, {})
                except Exception:
                    pv = None
            # a literal spanning several lines (raw newline) is not matched by the single-line regex
            if pv != val:
                _viol(out, "emit-py", "wrong_string_literal", "py:format_str_value", "S%d value %r: python literal %r denotes %r" % (k, val, m.group(1) if m else None, pv), "", files, feats)
            m = re.search(r"^const S%d(?: \w+)? = (.*)$" % k, gotext, re.M)
            gv = go_unquote(m.group(1)) if m else None
            if gv != val:
                _viol(out, "emit-go", "wrong_string_literal", "go:format_str_value", "S%d value %r: go literal %r denotes %r" % (k, val, m.group(1) if m else None, gv), "", files, feats)
            c_probe.append("{ static const char s[] = S%d; d(\"S%d\", s, sizeof s - 1); }" % (k, k))
        c_probe.append("return 0;}")
        from ..cback import render_c_files

        def c_probe_run(c_mode):
            """Compile the header of one mode with a program that prints every string macro's bytes."""
            d_c = os.path.join(d, "c_std" if c_mode == "standard" else "c_opt")
            os.makedirs(d_c, exist_ok=True)
            texts_c = render_c_files(path, d_c, optimize=(c_mode == "-O"))
            htext_c = "\n".join(v for k2, v in texts_c.items() if k2.endswith(".h"))
            write(os.path.join(d_c, "probe.c"), "\n".join(c_probe) + "\n")
            r = subprocess.run(["gcc", "-std=gnu11", "-w", "-I", d_c, "-I", bind.CLIB_DIR, os.path.join(d_c, "probe.c"), "-o", os.path.join(d_c, "probe")], capture_output=True, text=True)
            if r.returncode:
                # find which constants break the header: compile each macro definition on its own
                bad = []
                for k, (src, val) in enumerate(strs):
                    m1 = re.search(r"^#define S%d .*$" % k, htext_c, re.M)
                    one = "%s\nstatic const char s[] = S%d;\nint main(void){return (int)sizeof s;}\n" % (m1.group(0) if m1 else "", k)
                    write(os.path.join(d_c, "one.c"), one)
                    r1 = subprocess.run(["gcc", "-std=gnu11", "-w", "-fsyntax-only", os.path.join(d_c, "one.c")], capture_output=True, text=True)
                    if r1.returncode:
                        bad.append((k, val))
                feats = ["str", "needs_escape"] if all(any(ch in v for ch in '"\\\n\r\t') for _, v in bad) and bad else ["str"]
                _viol(out, "emit-c", "string_macro_does_not_compile", "c:format_str_value", "C header (%s mode) with string constants does not compile; offending values %r" % (c_mode, [v for _, v in bad][:6]),
                      r.stderr[-1200:], files, feats)
                return
            got = {}
            for line in subprocess.run([os.path.join(d_c, "probe")], capture_output=True, text=True).stdout.splitlines():
                n, _, hx = line.partition(" ")
                got[n] = bytes.fromhex(hx).decode("utf-8", errors="replace")
            for k, (src, val) in enumerate(strs):
                if consts.get("S%d" % k) != val:
                    continue  # reported above
                if got.get("S%d" % k) != val:
                    feats = ["str"] + (["needs_escape"] if any(ch in val for ch in '"\\\n\r\t') else [])
                    _viol(out, "emit-c", "wrong_string_literal", "c:format_str_value", "S%d value %r: C macro (%s mode) denotes %r" % (k, val, c_mode, got.get("S%d" % k)), "", files, feats)

        for c_mode in ("standard", "-O"):
            try:
                c_probe_run(c_mode)
            except Exception as e:
                _viol(out, "pipeline", type(e).__name__, repo_site(e), "C rendering (%s mode) of string constants failed" % c_mode, exc_summary(e), files)
        out.sample(dict(kind="strings", first=strs[:4], n=len(strs)))
    return out.result()


def run_unit(unit):
    if unit[0] == "E":
        return run_exprs(unit)
    return run_strings(unit)


def units(tier):
    n = len(expr_space(tier))
    us = [("E", tier, i, min(n, i + PER_FILE)) for i in range(0, n, PER_FILE)]
    m = len(string_space(tier))
    us += [("S", tier, i, min(m, i + 40)) for i in range(0, m, 40)]
    return us


def main(pid, tier):
    t0 = time.time()
    acc = Acc()
    acc.merge(run_units(units(tier), run_unit, maxtasks=20))
    c = acc.counters
    cov = dict(states=c["states"], transitions=c["transitions"], traces_validated_against_impl=c["traces"], evaluations=c["evaluations"],
               distinct_nontrivial=c["nontrivial"], expressions=len(expr_space(tier)), strings=len(string_space(tier)),
               skipped_division_by_zero=c["skipped_division_by_zero"], skipped_beyond_int64=c["skipped_beyond_int64"],
               negative_inexact_division_both_accepted=c["negative_inexact_division_both_accepted"], c_probes=c["c_probes"],
               rule="all constant expressions with <= %d operators over the literal alphabet %s (+ references to earlier and imported constants), every "
                    "operator choice and parenthesisation, de-duplicated by text; all strings of length <= %d over the lexer alphabet; four boolean "
                    "spellings; evaluated values also used as capacities and max_bytes; oracle: independent precedence-climbing evaluator, literal read "
                    "back in Python (evaluated), C (compiled: _Static_assert / printed bytes), Go (lexed); non-trivial = value != 0 / non-empty" % (
                        3 if tier == "quick" else 4, LITS_FULL, 2 if tier == "quick" else 3),
               exhaustive=True, bound="operators <= %d, string length <= %d" % (3 if tier == "quick" else 4, 2 if tier == "quick" else 3))
    return finish(PID, tier, acc, cov, t0, assumptions=["independent evaluator bpmc/checks/c13.py:evaluate", "gcc, CPython; Go literals lexed by go_unquote"])


def replay(payload):
    bind.bind()
    r = payload["replay"]
    out = UnitOut()
    # re-run the whole file of the recorded case
    files = r.get("files") or {}
    with Scratch() as sc:
        for n, t in files.items():
            write(os.path.join(sc.dir, n), t)
        try:
            p = parse_file(os.path.join(sc.dir, "t.bitproto"))
            print("parsed; constants:", [(n, c.value) for n, c in p.constants(recursive=False)][:10])
        except Exception as e:
            print("REPRODUCED (parse): %s" % e)
            return 1
    print("see the recorded desc: %s" % payload.get("desc"))
    return 1
