"""C12: the wire format depends only on field numbers and resolved types.

BFS over rewrite events (the nine rewrites of the statement, each instantiated at every
applicable site) from a set of root schemas, canonical de-duplication; invariant on every
state: for every BASIS value of the root, the implementation's encode() of the rewritten
schema equals that of the root (and the reference)."""
import time
from collections import OrderedDict

from .. import bind, cback, ref, scope, sym, values
from ..evidence import finish, pack, unpack
from ..explore import Acc, UnitOut, bfs, exc_summary, repo_site, run_units
from ..ir import Style, print_proto
from ..pyback import Scratch, compile_py, set_vec, watchdog

PID = "C12"
ROOT_MSG = "Packet"


# ------------------------------------------------------------------------------ roots
def roots():
    out = []

    def add(name, build):
        ids = sym.Ids()
        out.append((name, build(ids)))

    def r_flat(ids):
        return sym.schema([sym.msg(ids, ROOT_MSG, False, [
            sym.field(("uint", 5), "count", 3), sym.field(("bool",), "flag", 1), sym.field(("int", 13), "delta", 2),
            sym.field(("byte",), "tag", 7), sym.field(("uint", 33), "big", 4)])])

    def r_enum_alias(ids):
        e = sym.enum(ids, "Color", 3, [("COLOR_BLUE", 6), ("COLOR_NONE", 0), ("COLOR_RED", 1)])
        a = sym.alias(ids, "Stamp", ("int", 24))
        m = sym.msg(ids, ROOT_MSG, False, [sym.field(("ref", e["id"]), "color", 1), sym.field(("ref", a["id"]), "stamp", 2),
                                            sym.field(sym.arr(("bool",), 3), "bits", 3), sym.field(sym.arr(("uint", 9), 2, True), "vals", 4)])
        return sym.schema([e, a, m])

    def r_nested(ids):
        inner_enum = sym.enum(ids, "Kind", 2, [("KIND_A", 0), ("KIND_B", 3)])
        inner = sym.msg(ids, "Inner", False, [sym.field(("uint", 3), "x", 1), sym.field(("int", 6), "y", 2)])
        m = sym.msg(ids, ROOT_MSG, False, [inner_enum, inner, sym.field(("ref", inner_enum["id"]), "kind", 1),
                                            sym.field(("ref", inner["id"]), "one", 2), sym.field(sym.arr(("ref", inner["id"]), 2), "many", 3),
                                            sym.field(("uint", 7), "tail", 4)])
        return sym.schema([m])

    def r_ext(ids):
        inner = sym.msg(ids, "Part", True, [sym.field(("uint", 4), "p", 1)])
        m = sym.msg(ids, ROOT_MSG, True, [sym.field(("uint", 2), "a", 1), sym.field(("ref", inner["id"]), "part", 2),
                                           sym.field(sym.arr(("ref", inner["id"]), 2, True), "parts", 3), sym.field(("int", 3), "z", 4)])
        return sym.schema([inner, m])

    def r_2d(ids):
        row = sym.alias(ids, "Row", sym.arr(("uint", 3), 2))
        m = sym.msg(ids, ROOT_MSG, False, [sym.field(("bool",), "lead", 1), sym.field(sym.arr(("ref", row["id"]), 2), "grid", 2),
                                            sym.field(("ref", row["id"]), "single", 3)])
        return sym.schema([row, m])

    def r_import(ids):
        e = sym.enum(ids, "Mode", 2, [("MODE_OFF", 0), ("MODE_ON", 1)])
        lm = sym.msg(ids, "Point", False, [sym.field(("int", 7), "x", 1), sym.field(("int", 7), "y", 2)])
        m = sym.msg(ids, ROOT_MSG, False, [sym.field(("ref", e["id"]), "mode", 1), sym.field(("ref", lm["id"]), "at", 2),
                                            sym.field(("uint", 5), "n", 3)])
        return sym.schema([m], libs=OrderedDict([("shared", (None, [e, lm]))]))

    def r_const(ids):
        k = sym.const(ids, "SIZE", 3)
        m = sym.msg(ids, ROOT_MSG, False, [sym.field(sym.arr(("uint", 5), 3, False, k["id"], "{K}"), "items", 1), sym.field(("bool",), "ok", 2),
                                            sym.field(sym.arr(("byte",), 2), "raw", 3)])
        return sym.schema([k, m])

    def r_two(ids):
        a = sym.msg(ids, "Head", False, [sym.field(("uint", 6), "len", 1), sym.field(("bool",), "more", 2)])
        b = sym.msg(ids, "Body", False, [sym.field(sym.arr(("int", 5), 3), "samples", 1)])
        m = sym.msg(ids, ROOT_MSG, False, [sym.field(("ref", b["id"]), "body", 9), sym.field(("ref", a["id"]), "head", 1), sym.field(("uint", 3), "crc", 2)])  # highest number: a message
        return sym.schema([a, b, m])

    def r_deep(ids):
        mode = sym.enum(ids, "Mode", 2, [("MODE_A", 0), ("MODE_B", 3)])
        unit = sym.msg(ids, "Unit", False, [sym.field(("uint", 2), "u", 1)])
        other = sym.msg(ids, "Other", False, [sym.field(("ref", mode["id"]), "m", 1), sym.field(("ref", unit["id"]), "u", 2)])
        kind = sym.enum(ids, "Kind", 3, [("KIND_A", 0), ("KIND_B", 5)])
        cell = sym.msg(ids, "Cell", False, [sym.field(("int", 5), "c", 1)])
        inner = sym.msg(ids, "Inner", False, [sym.field(("ref", kind["id"]), "k", 1), sym.field(("ref", cell["id"]), "cell", 2), sym.field(("uint", 2), "p", 3)])
        m = sym.msg(ids, ROOT_MSG, False, [kind, cell, inner, sym.field(("ref", inner["id"]), "one", 1), sym.field(sym.arr(("ref", inner["id"]), 2), "two", 2),
                                            sym.field(("bool",), "z", 3)])
        return sym.schema([mode, unit, other, m])

    def r_cells(ids):
        # an array of messages whose element holds an array under the SAME field number as the outer array (renumbering either breaks the coincidence)
        cell = sym.msg(ids, "Cell", False, [sym.field(sym.arr(("uint", 4), 3), "taps", 1), sym.field(("uint", 5), "gain", 2)])
        m = sym.msg(ids, ROOT_MSG, False, [sym.field(sym.arr(("ref", cell["id"]), 2), "cells", 1), sym.field(("uint", 3), "tail", 2)])
        return sym.schema([cell, m])

    add("deep", r_deep)
    add("cells", r_cells)
    add("flat", r_flat)
    add("enum_alias", r_enum_alias)
    add("nested", r_nested)
    add("ext", r_ext)
    add("2d", r_2d)
    add("import", r_import)
    add("const", r_const)
    add("two", r_two)
    return out


# ---------------------------------------------------------------------------- rewrites
RENAMES = {"msg": lambda n: n + "Renamed", "enum": lambda n: "X" + n, "alias": lambda n: n + "T", "const": lambda n: n + "_K",
           "field": lambda n: n + "_v2", "member": lambda n: n + "_X"}
STYLES = [Style(), Style(semicolon="all"), Style(indent="  ", semicolon="mixed", blank_between=2), Style(indent="\t"), Style(blank_between=0),
          Style(trailing_comments=True, semicolon="mixed")]


def successors(state):
    s, style_i = state

    def emit(ev, ns, st=style_i):
        return (ev, (ns, st))

    # 1b. rename a nested definition to the name of an outer definition that is not used inside
    #     the enclosing message (legal shadowing: the innermost definition keeps winning)
    tops = {}
    for stem, d, cont, i, path in sym.all_defs(s):
        if not path and stem == s["main"] and d["kind"] in ("msg", "enum"):
            tops[d["name"]] = d
    for stem, d, cont, i, path in sym.all_defs(s):
        if path and stem == s["main"] and d["kind"] in ("msg", "enum"):
            outer = [x for x in s["files"][stem]["defs"] if x["name"] == path[0]][0]
            used_inside = set(sym.refs_of(outer))
            for tname, td in tops.items():
                if tname == d["name"] or tname == path[0] or td["kind"] != d["kind"]:
                    continue
                if set(sym.ids_in(td)) & used_inside:
                    continue
                if any(x["name"] == tname for x in cont if x["kind"] != "field") or any(x["kind"] == "field" and x["name"] == tname for x in cont):
                    continue
                ns = sym.clone(s)
                _, d2, _, _, _ = sym.find(ns, d["id"])
                d2["name"] = tname
                yield emit(("rename_shadow", d["name"], tname), ns)
    # 1. renames
    seen_kinds = set()
    for stem, d, cont, i, path in sym.all_defs(s):
        key = d["kind"]
        if d["name"] == ROOT_MSG:
            continue
        ns = sym.clone(s)
        _, d2, _, _, _ = sym.find(ns, d["id"])
        d2["name"] = RENAMES[d["kind"]](d["name"])
        yield emit(("rename", d["kind"], d["name"]), ns)
        if d["kind"] == "enum":
            ns = sym.clone(s)
            _, d2, _, _, _ = sym.find(ns, d["id"])
            d2["members"] = [(RENAMES["member"](n), v) for n, v in d2["members"]]
            yield emit(("rename_members", d["name"]), ns)
    for stem, d, cont, i, path in sym.all_defs(s):
        if d["kind"] == "msg":
            fields = [k for k, it in enumerate(d["items"]) if it["kind"] == "field"]
            if fields:
                ns = sym.clone(s)
                _, d2, _, _, _ = sym.find(ns, d["id"])
                for k in fields:
                    d2["items"][k]["name"] = RENAMES["field"](d2["items"][k]["name"])
                yield emit(("rename_fields", d["name"]), ns)
            # 2. reorder two field declarations keeping their numbers
            for a, b in zip(fields, fields[1:]):
                ns = sym.clone(s)
                _, d2, _, _, _ = sym.find(ns, d["id"])
                d2["items"][a], d2["items"][b] = d2["items"][b], d2["items"][a]
                yield emit(("reorder_fields", d["name"], a, b), ns)
            # 9. renumber order-preservingly
            if fields and max(d["items"][k]["number"] for k in fields) * 2 + 1 < 256:
                for label, fn in (("+1", lambda n: n + 1), ("x2", lambda n: n * 2)):
                    ns = sym.clone(s)
                    _, d2, _, _, _ = sym.find(ns, d["id"])
                    for k in fields:
                        d2["items"][k]["number"] = fn(d2["items"][k]["number"])
                    yield emit(("renumber", d["name"], label), ns)
            # 9b. ... up to the largest admissible numbers: rank r of n fields -> 255 - (n - 1 - r)
            if fields and max(d["items"][k]["number"] for k in fields) < 255:
                ns = sym.clone(s)
                _, d2, _, _, _ = sym.find(ns, d["id"])
                ranked = sorted(fields, key=lambda k: d["items"][k]["number"])
                for r, k in enumerate(ranked):
                    d2["items"][k]["number"] = 255 - (len(ranked) - 1 - r)
                yield emit(("renumber", d["name"], "top255"), ns)
            # 4a. introduce an alias for a field's base/array type
            for k in fields:
                t = d["items"][k]["type"]
                if t[0] in ("uint", "int", "bool", "byte") or (t[0] == "arr" and t[1][0] in ("uint", "int", "bool", "byte")):
                    ns = sym.clone(s)
                    stem2, d2, cont2, i2, path2 = sym.find(ns, d["id"])
                    nid = sym.max_id(ns) + 1
                    a = dict(kind="alias", id=nid, name="Al%d" % nid, type=t)
                    # the alias must be a top-level definition of the same file, before the outermost enclosing message
                    top = _top_index(ns, stem2, d["id"])
                    ns["files"][stem2]["defs"].insert(top, a)
                    _, d3, _, _, _ = sym.find(ns, d["id"])
                    d3["items"][k]["type"] = ("ref", nid)
                    yield emit(("introduce_alias", d["name"], d["items"][k]["name"]), ns)
                    break
    # 4a'. ... for the ELEMENT type of an array field: uint5[3] -> type Al = uint5; Al[3]
    for stem, d, cont, i, path in sym.all_defs(s):
        if d["kind"] != "msg":
            continue
        for k, it in enumerate(d["items"]):
            if it["kind"] == "field" and it["type"][0] == "arr" and it["type"][1][0] in ("uint", "int", "bool", "byte"):
                t = it["type"]
                ns = sym.clone(s)
                stem2, d2, cont2, i2, path2 = sym.find(ns, d["id"])
                nid = sym.max_id(ns) + 1
                a = dict(kind="alias", id=nid, name="El%d" % nid, type=t[1])
                top = _top_index(ns, stem2, d["id"])
                ns["files"][stem2]["defs"].insert(top, a)
                _, d3, _, _, _ = sym.find(ns, d["id"])
                d3["items"][k]["type"] = ("arr", ("ref", nid)) + tuple(t[2:])
                yield emit(("introduce_element_alias", d["name"], it["name"]), ns)
                break
    # 4b. inline an alias everywhere
    for stem, d, cont, i, path in sym.all_defs(s):
        if d["kind"] == "alias":
            ok = True
            ns = sym.clone(s)

            def sub(t):
                nonlocal ok
                if t[0] == "ref" and t[1] == d["id"]:
                    return d["type"]
                if t[0] == "arr":
                    e = sub(t[1])
                    if e[0] == "arr":
                        ok = False  # arrays are one-dimensional: this use needs the alias
                    return ("arr", e, t[2], t[3], t[4], t[5])
                return t

            for stem2, d2, _, _, _ in sym.all_defs(ns):
                if d2["kind"] == "msg":
                    for it in d2["items"]:
                        if it["kind"] == "field":
                            it["type"] = sub(it["type"])
                elif d2["kind"] == "alias" and d2["id"] != d["id"]:
                    d2["type"] = sub(d2["type"])
            if ok:
                stem3, d3, cont3, i3, _ = sym.find(ns, d["id"])
                del cont3[i3]
                yield emit(("inline_alias", d["name"]), ns)
    # 3. swap two adjacent independent top-level definitions
    for stem, f in s["files"].items():
        for i in range(len(f["defs"]) - 1):
            a, b = f["defs"][i], f["defs"][i + 1]
            if not (set(sym.ids_in(a)) & set(sym.refs_of(b))):
                ns = sym.clone(s)
                g = ns["files"][stem]["defs"]
                g[i], g[i + 1] = g[i + 1], g[i]
                yield emit(("swap_definitions", a["name"], b["name"]), ns)
    # 5. move a message or enum between nested and top-level scope
    for stem, d, cont, i, path in sym.all_defs(s):
        if d["kind"] in ("msg", "enum") and d["name"] != ROOT_MSG:
            if path:  # nested -> top level, immediately before its outermost enclosing message
                outer_ids = set()
                for stem2, d2, _, _, p2 in sym.all_defs(s):
                    if p2 and p2[0] == path[0] and stem2 == stem:
                        outer_ids.add(d2["id"])
                top_names = set(x["name"] for x in s["files"][stem]["defs"])
                if d["name"] not in top_names and not (set(sym.refs_of(d)) & outer_ids - set(sym.ids_in(d))):
                    ns = sym.clone(s)
                    stem2, d2, cont2, i2, _ = sym.find(ns, d["id"])
                    del cont2[i2]
                    top = [k for k, x in enumerate(ns["files"][stem2]["defs"]) if x["name"] == path[0]][0]
                    ns["files"][stem2]["defs"].insert(top, d2)
                    yield emit(("lift_to_top", d["name"]), ns)
            else:  # top level -> nested in the next message that is its only user
                f = s["files"][stem]["defs"]
                if i + 1 < len(f) and f[i + 1]["kind"] == "msg":
                    users = [d2["id"] for _, d2, _, _, p2 in sym.all_defs(s) if not p2 and d2["id"] != d["id"] and (set(sym.ids_in(d)) & set(sym.refs_of(d2)))]
                    if users == [f[i + 1]["id"]]:
                        ns = sym.clone(s)
                        g = ns["files"][stem]["defs"]
                        moved = g.pop(i)
                        g[i]["items"].insert(0, moved)
                        yield emit(("nest_into", d["name"], f[i + 1]["name"]), ns)
    # 6. move a top-level definition (without dependencies) into an imported file
    main = s["main"]
    for i, d in enumerate(s["files"][main]["defs"]):
        if d["kind"] in ("msg", "enum", "alias") and d["name"] != ROOT_MSG and not list(sym.refs_of(d)):
            for as_name in (None, "lb"):
                ns = sym.clone(s)
                moved = ns["files"][main]["defs"].pop(i)
                stem_new = "moved"
                if stem_new not in ns["files"]:
                    files = OrderedDict([(stem_new, dict(name=stem_new, imports=[], defs=[]))])
                    files.update(ns["files"])
                    ns["files"] = files
                    ns["files"][main]["imports"].append((as_name, stem_new))
                elif as_name is not None:
                    continue
                ns["files"][stem_new]["defs"].append(moved)
                yield emit(("move_to_import", d["name"], as_name or "plain"), ns)
    # 8. replace a capacity literal by a constant expression of equal value
    for stem, d, cont, i, path in sym.all_defs(s):
        if d["kind"] == "msg":
            for k, it in enumerate(d["items"]):
                if it["kind"] == "field" and it["type"][0] == "arr" and it["type"][4] is None:
                    for form in ("{K}", "{K}*1", "({K}+1)-1", "({K}*2)*3/2/3", "{K}+{K}*4/2-{K}*2"):
                        ns = sym.clone(s)
                        stem2, d2, _, _, _ = sym.find(ns, d["id"])
                        nid = sym.max_id(ns) + 1
                        t = d2["items"][k]["type"]
                        c = dict(kind="const", id=nid, name="CAP_%d" % nid, value=t[2], text=None)
                        ns["files"][stem2]["defs"].insert(_top_index(ns, stem2, d["id"]), c)
                        # a constant *expression* in a capacity is not part of the grammar: name an intermediate constant
                        if form != "{K}":
                            nid2 = nid + 1
                            c2 = dict(kind="const", id=nid2, name="CAPX_%d" % nid2, value=t[2], text=None, ref=nid, form=form)
                            ns["files"][stem2]["defs"].insert(_top_index(ns, stem2, d["id"]), c2)
                            d2["items"][k]["type"] = ("arr", t[1], t[2], t[3], nid2, "{K}")
                        else:
                            d2["items"][k]["type"] = ("arr", t[1], t[2], t[3], nid, "{K}")
                        yield emit(("capacity_constant", d["name"], it["name"], form), ns)
                    break
    # 7. comments / whitespace / optional semicolons
    for k in range(len(STYLES)):
        if k != style_i:
            yield emit(("style", k), s, k)
    if not any(d.get("comments") for _, d, _, _, _ in sym.all_defs(s)):
        ns = sym.clone(s)
        for _, d, _, _, _ in sym.all_defs(ns):
            d["comments"] = ["about %s" % d["name"], ""]
        yield emit(("comments",), ns)


def _top_index(schema, stem, did):
    for k, d in enumerate(schema["files"][stem]["defs"]):
        if did in set(sym.ids_in(d)):
            return k
    raise KeyError(did)


def canon(state):
    return sym.canon(state[0]) + "|%d" % state[1]


# --------------------------------------------------------------------------- execution
def compile_state(state, sc, tag):
    s, style_i = state
    proto, built = sym.link(s)
    ms, _, _ = compile_py(proto, sc.sub(tag), STYLES[style_i])
    pkt = None
    for _, d, _, _, _ in sym.all_defs(s):
        if d["name"] == ROOT_MSG:
            pkt = built[d["id"]]
    return ms, pkt, proto


def texts(state):
    proto, _ = sym.link(state[0])
    return {p.filename: print_proto(p, STYLES[state[1]])[0] for p in proto.all_files()}


_BFS = {}


def bfs_of(tier, ridx):
    key = (tier, ridx)
    if key not in _BFS:
        rname, root = roots()[ridx]
        depth = 2 if tier == "quick" else 3
        _BFS[key] = bfs([(root, 0)], successors, canon, depth, max_states=1600 if tier == "quick" else 12000)
    return _BFS[key]


CHUNK = 100


def run_unit(unit):
    _, tier, ridx, lo, hi = unit
    rname, root = roots()[ridx]
    out = UnitOut()
    order, transitions, capped = bfs_of(tier, ridx)
    if lo == 0:
        out.count("bfs_transitions", transitions)
        if capped:
            out.count("capped")
    with Scratch() as sc:
        ms0, pkt0, _ = compile_state((root, 0), sc, "root")
        lay0 = ref.layout(pkt0)
        leaves0 = [l for l in lay0 if l.is_value]
        vecs = values.basis(leaves0)
        cls0 = getattr(ms0.module, pkt0.name)
        root_bytes = []
        for v in vecs:
            o = cls0()
            set_vec(o, leaves0, v)
            root_bytes.append(bytes(o.encode()))
        ms0.unload()
        for v, b in zip(vecs, root_bytes):
            if b != ref.encode(pkt0, v, lay0):
                out.violation(check="root", symptom="root_differs_from_reference", site="encode", features=[], desc="root %s vec=%s" % (rname, v))
                break
        c_every = 7 if tier == "quick" else 3
        for k, (state, d, hist) in list(enumerate(order))[lo:hi]:
            out.count("states")
            for ev in hist[-1:]:
                out.cls("rewrite:" + ev[0])
            try:
                with watchdog(60):
                    ms, pkt, proto = compile_state(state, sc, "s%d" % k)
            except Exception as e:
                out.violation(check="pipeline", symptom=type(e).__name__, site=repo_site(e), features=["rewrite:" + (hist[-1][0] if hist else "root")],
                              sig_features=[hist[-1][0] if hist else "root"],
                              desc="root %s history %s: rewritten schema failed to compile/import" % (rname, list(hist)), detail=exc_summary(e),
                              schema=texts(state), replay=dict(kind="c12", root=ridx, state=pack(state)))
                continue
            try:
                lay = ref.layout(pkt)
                leaves = [l for l in lay if l.is_value]
                if [(l.width, l.signed, l.offset) for l in lay] != [(l.width, l.signed, l.offset) for l in lay0]:
                    raise bind.InfraError("rewrite %s changed the reference layout: generator bug" % (hist,))
                cls = getattr(ms.module, pkt.name)
                out.count("transitions", len(vecs))
                for v, rb in zip(vecs, root_bytes):
                    out.count("evaluations")
                    out.count("traces")
                    if any(v):
                        out.count("nontrivial")
                    try:
                        o = cls()
                        set_vec(o, leaves, v)
                        b = bytes(o.encode())
                    except Exception as e:
                        out.violation(check="encode", symptom=type(e).__name__, site=repo_site(e), features=[], sig_features=[hist[-1][0] if hist else "root"],
                                      desc="root %s history %s: encode raised" % (rname, list(hist)), detail=exc_summary(e), schema=texts(state),
                                      replay=dict(kind="c12", root=ridx, state=pack(state)))
                        break
                    out.outcome(b)
                    if b != rb:
                        out.violation(check="encode", symptom="bytes_changed_by_rewrite", site="wire format", features=["rewrite:" + hist[-1][0]],
                                      sig_features=[hist[-1][0]],
                                      desc="root %s history %s: vec=%s root bytes %s rewritten bytes %s" % (rname, list(hist), v, rb.hex(), b.hex()),
                                      schema=dict(texts(state), **{"ROOT:" + k2: v2 for k2, v2 in texts((root, 0)).items()}),
                                      replay=dict(kind="c12", root=ridx, state=pack(state)))
                        break
                # C on a fixed sub-scope: every c_every-th state
                # ... and every state at depth 1 (each single rewrite is seen by the C runtime at least once)
                if k % c_every == 0 or len(hist) <= 1:
                    _c_check(rname, state, hist, proto, pkt, leaves, vecs, root_bytes, sc, out, "c%d" % k, ridx)
                if k < 3 or k == len(order) - 1:
                    out.sample(dict(root=rname, history=[list(map(str, e)) for e in hist], schema=texts(state)["t.bitproto"][-400:], values=len(vecs)))
            finally:
                ms.unload()
    return out.result()


def _c_check(rname, state, hist, proto, pkt, leaves, vecs, root_bytes, sc, out, tag, ridx):
    from .c05 import _CB
    try:
        cb = _CB([scope.Case("x", pkt)], sc.sub(tag), proto)
        cb.build("std-O1")
        h = cb.harness("std-O1")
    except Exception as e:
        out.violation(check="pipeline-c", symptom=type(e).__name__, site="c-build", features=[], sig_features=[hist[-1][0] if hist else "root"],
                      desc="root %s history %s: C build failed" % (rname, list(hist)), detail=str(e)[-1500:], schema=texts(state),
                      replay=dict(kind="c12", root=ridx, state=pack(state)))
        return
    try:
        enc = h.encode_many(0, [h.image(0, leaves, v) for v in vecs])
        out.count("c_states")
        out.count("evaluations", len(vecs))
        out.count("traces", len(vecs))
        for v, (flag, b), rb in zip(vecs, enc, root_bytes):
            if b != rb:
                out.violation(check="encode-c", symptom="bytes_changed_by_rewrite", site="wire format (C)", features=[], sig_features=[hist[-1][0] if hist else "root"],
                              desc="root %s history %s: vec=%s root bytes %s C bytes of rewritten schema %s" % (rname, list(hist), v, rb.hex(), b.hex()),
                              schema=texts(state), replay=dict(kind="c12", root=ridx, state=pack(state)))
                break
    except cback.HarnessFault as e:
        out.violation(check="encode-c", symptom="fault", site="c", features=[], desc="harness fault %s" % e, detail=e.stderr)
    finally:
        h.close()
    # optimization mode (traditional states): the rewritten schema's -O encoder must give the root's bytes too
    text = "\n".join(texts(state).values())
    if "'" in text:
        return
    try:
        cbo = _CBO([scope.Case("x", pkt)], sc.sub(tag + "o"), proto)
        cbo.build("std-O1")
        h2 = cbo.harness("std-O1")
    except Exception as e:
        out.violation(check="pipeline-c-O", symptom=type(e).__name__, site="c-build", features=[], sig_features=[hist[-1][0] if hist else "root"],
                      desc="root %s history %s: C -O build failed" % (rname, list(hist)), detail=str(e)[-1500:], schema=texts(state),
                      replay=dict(kind="c12", root=ridx, state=pack(state)))
        return
    try:
        enc = h2.encode_many(0, [h2.image(0, leaves, v) for v in vecs])
        out.count("c_opt_states")
        out.count("evaluations", len(vecs))
        out.count("traces", len(vecs))
        for v, (flag, b), rb in zip(vecs, enc, root_bytes):
            if b != rb:
                out.violation(check="encode-c-O", symptom="bytes_changed_by_rewrite", site="wire format (C -O)", features=[], sig_features=[hist[-1][0] if hist else "root"],
                              desc="root %s history %s: vec=%s root bytes %s C -O bytes of rewritten schema %s" % (rname, list(hist), v, rb.hex(), b.hex()),
                              schema=texts(state), replay=dict(kind="c12", root=ridx, state=pack(state)))
                break
    except cback.HarnessFault as e:
        out.violation(check="encode-c-O", symptom="fault", site="c", features=[], desc="harness fault %s" % e, detail=e.stderr)
    finally:
        h2.close()


class _CBO(cback.CBatch):
    """-O CBatch over an explicit ProtoFile."""

    def __init__(self, cases, workdir, proto):
        import os, shutil
        from ..ir import write_files
        self.cases = cases
        self.dir = workdir
        self.optimize = True
        self.endian = "both"
        os.makedirs(workdir, exist_ok=True)
        self.batch = proto
        write_files(proto, workdir)
        self.texts = cback.render_c_files(os.path.join(workdir, proto.filename), workdir, optimize=True, endian="both")
        self.macros = cback.bytes_length_macros(self.texts)
        self.gen_c = sorted(n for n in self.texts if n.endswith(".c"))
        self.main_header = proto.stem + "_bp.h"
        with open(os.path.join(workdir, "harness.c"), "w") as f:
            f.write(cback.gen_harness(cases, self.main_header, self.macros, with_json=False))
        shutil.copy(cback.CORE, os.path.join(workdir, "harness_core.c"))
        self.exes = {}


def units(tier):
    us = []
    for k in range(len(roots())):
        n = len(bfs_of(tier, k)[0])
        us += [("R", tier, k, lo, min(n, lo + CHUNK)) for lo in range(0, n, CHUNK)]
    return us


def main(pid, tier):
    t0 = time.time()
    acc = Acc()
    acc.merge(run_units(units(tier), run_unit, maxtasks=4))
    c = acc.counters
    g = []
    for need in ("rename", "rename_shadow", "rename_members", "rename_fields", "reorder_fields", "renumber", "introduce_alias", "introduce_element_alias", "inline_alias", "swap_definitions",
                 "lift_to_top", "nest_into", "move_to_import", "capacity_constant", "style", "comments"):
        if acc.classes.get("rewrite:" + need, 0) < 1:
            g.append("rewrite %s never applied" % need)
    cov = dict(states=c["states"], transitions=c["bfs_transitions"] + c["transitions"], traces_validated_against_impl=c["traces"],
               evaluations=c["evaluations"], distinct_nontrivial=c["nontrivial"], roots=len(roots()), bfs_edges=c["bfs_transitions"],
               states_also_checked_in_C=c["c_states"], states_also_checked_in_C_optimization_mode=c["c_opt_states"],
               rule="BFS over rewrite events (rename definitions/fields/members, reorder field declarations, swap independent definitions, introduce/"
                    "inline alias, nested<->top level, move into imported file with/without `as`, comments/whitespace/semicolons, capacity literal -> "
                    "constant / K*1 / (K+1)-1 / (K*2)*3/2/3 / K+K*4/2-K*2, renumber +1 / x2 / up to 255) to depth %d from %d roots, canonical de-duplication; every state compiled by the real "
                    "compiler; every BASIS value of the root encoded by the generated Python (and by generated C on every %dth state) and compared with "
                    "the root's bytes; non-trivial = value has a bit set" % (2 if tier == "quick" else 3, len(roots()), 7 if tier == "quick" else 3),
               exhaustive=not c["capped"], bound="depth %d, state cap per root %d" % (2 if tier == "quick" else 3, 1600 if tier == "quick" else 12000))
    return finish(PID, tier, acc, cov, t0, assumptions=["the rewrites preserve the reference layout by construction (asserted on every state)"], guards=g,
                  capped=("state cap reached in %d roots: BFS layers beyond the cap were not explored" % c["capped"]) if c["capped"] else None)


def replay(payload):
    bind.bind()
    r = payload["replay"]
    state = unpack(r["state"])
    rname, root = roots()[r["root"]]
    with Scratch() as sc:
        ms0, pkt0, _ = compile_state((root, 0), sc, "root")
        lay0 = ref.layout(pkt0)
        leaves0 = [l for l in lay0 if l.is_value]
        vecs = values.basis(leaves0)
        rb = []
        for v in vecs:
            o = getattr(ms0.module, pkt0.name)()
            set_vec(o, leaves0, v)
            rb.append(bytes(o.encode()))
        ms0.unload()
        try:
            ms, pkt, _ = compile_state(state, sc, "st")
        except Exception as e:
            print("REPRODUCED: pipeline %s" % e)
            return 1
        leaves = ref.value_leaves(pkt)
        for v, b0 in zip(vecs, rb):
            o = getattr(ms.module, pkt.name)()
            set_vec(o, leaves, v)
            if bytes(o.encode()) != b0:
                print("REPRODUCED: vec=%s" % v)
                return 1
    print("NOT REPRODUCED")
    return 0
