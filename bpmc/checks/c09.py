"""C09: compilation is total - any input text yields success or a parser error.

All single-token edits (delete / replace by every vocabulary representative / insert before
every position / swap neighbours) of a set of seeds that together use every grammar
production, all truncations and single-byte deletions, all fragments of <= 3 vocabulary
tokens in 9 grammar contexts, import environment answers; every accepted result is rendered
by every renderer.  Oracle: parse -> Proto | ParserError | OSError; render -> str |
RendererError; within the watchdog time."""
import itertools
import os
import re
import time

from .. import bind
from ..evidence import finish
from ..explore import Acc, UnitOut, exc_summary, repo_site, run_units
from ..pyback import Scratch, Timeout, quiet_stderr, watchdog

PID = "C09"

SEEDS = {
    "basic": """proto basic

// A comment
const MAX = 10
const NAME = "na\\"me"
const FLAG = true
const CALC = (MAX + 2) * 3 / 2 - 1

enum Color : uint3 {
    COLOR_UNKNOWN = 0
    COLOR_RED = 1;
}

type Stamp = int64
typedef uint7[3] Triple

message Pen {
    option max_bytes = 40
    Color color = 1
    Stamp when = 2;
    Triple t = 3
    bool[MAX]' flags = 4
    byte type = 5
}
""",
    "nested": """proto nested

message Outer' {
    enum Kind : uint2 {
        KIND_A = 0
    }
    message Inner {
        Kind k = 1
        message Deep {
            uint13 v = 1
        }
        Deep d = 2
    }
    Inner.Deep[2] ds = 1
    Inner one = 2
    Kind[3] kinds = 0x3
}
""",
    "imports": """proto imports

import "lib.bitproto"
import al "lia.bitproto"

option c.name_prefix = "my_"
option c.struct_packing_alignment = 1

const TWO = lib.LK * al.AK

message User {
    lib.LE e = 1
    al.AM[TWO] ms = 2
    lib.LM m = 3
}
""",
    "empty": """proto empty
message Nothing {}
message Ext' {}
enum None : uint1 {}
message UsesEmpty { Nothing n = 1; Ext e = 2 }
""",
    "arith": """proto arith
const A = 1 + 2 * 3
const B = (A - 1) / 2
const C = A * B - 0x10
const S = "x"
const T = S
const U = yes
message M { bool[B] b = 1; uint3[A] a = 2 }
""",
    "semis": """proto semis;
const A = 1;
type T = byte[4];
enum E : uint8 { E_A = 0; E_B = 255; }
message M { T t = 1; E e = 2; option max_bytes = 8; }
""",
    "enumuse": """proto enumuse
enum Wide : uint33 {
    WIDE_A = 0
    WIDE_B = 8589934591
}
message W {
    int5 s = 2
    Wide w = 1
    Wide[2]' ws = 200
}
""",
    "alias2d": """proto alias2d
type Row = uint3[2]
type Bit = bool
message Grid {
    Row[2] rows = 1
    Bit b = 2
    Bit[3] bs = 3
}
""",
}
SEEDS["odd"] = """proto odd
option c.struct_packing_alignment = 8
option c.name_prefix = "odd_"
const ONLY = 1
enum Alone : uint64 { ALONE_MAX = 18446744073709551615 }
type Bits = bool[1]'
message Shell { message A { message B { message C {} } } }
message Holder' { Shell s = 255; Shell.A.B.C[1] cs = 1; Bits b = 2; Alone[2]' as = 3 }
"""
SEEDS["unders"] = """proto unders
option c.name_prefix = "pre_"
const __K = 1
const K__2 = 2
enum _Kind : uint2 { _KIND_A = 0; KIND__B = 1 }
type _Alias = uint3[2]
message Frame__Header { uint3 seq__no = 1; bool _flag = 2; _Kind kind_ = 3 }
message Outer_ { message _Inner { message __Deep { bool x_ = 1 } __Deep d = 1 } _Inner i = 1; _Inner.__Deep[2] ds = 2; _Alias a = 3 }
"""
# accepted-but-unusual schemas, each rendered by every renderer (no edits applied to them): shapes a renderer may never have seen
UNUSUAL = {
    "enum-without-zero": "proto u\n\nenum Level : uint3 {\n    LEVEL_LOW = 1\n    LEVEL_HIGH = 2\n}\n\ntype Levels = Level[2]\n\nmessage M {\n    Level l = 1\n    Level[3] ls = 2\n    Levels al = 3\n}\n",
    "enum-zero-last": "proto u\n\nenum Level : uint3 {\n    LEVEL_HIGH = 7\n    LEVEL_LOW = 1\n    LEVEL_NONE = 0\n}\n\nmessage M {\n    Level l = 1\n    Level[2]' ls = 2\n}\n",
    "enum-single-member": "proto u\n\nenum One : uint1 {\n    ONE_ONLY = 1\n}\n\nmessage M {\n    One o = 1\n}\n",
    "enum-widest": "proto u\n\nenum Big : uint64 {\n    BIG_TOP = 18446744073709551615\n    BIG_MID = 9223372036854775808\n}\n\nmessage M {\n    Big b = 1\n    Big[2] bs = 2\n}\n",
    "only-nested-definitions": "proto u\n\nmessage Holder {\n    enum K : uint2 {\n        K_A = 0\n    }\n    message In {\n        K k = 1\n    }\n}\n\nmessage M {\n    Holder h = 1\n    Holder.In i = 2\n    Holder.K[2] ks = 3\n}\n",
    "alias-of-bool-and-byte": "proto u\n\ntype Flag = bool\ntype Oct = byte\ntype Flags = Flag[3]\ntype Octs = Oct[2]'\n\nmessage M {\n    Flag f = 1\n    Flag[2] fs = 2\n    Flags all = 3\n    Octs o = 4\n    Oct[2] os = 5\n}\n",
    "empty-everything": "proto u\n\nmessage A {\n}\n\nmessage B' {\n}\n\nmessage M {\n    A a = 1\n    B b = 2\n    A[2] as = 3\n    B[2]' bs = 4\n}\n",
    "constants-only": "proto u\n\nimport \"lib.bitproto\"\nimport al \"lia.bitproto\"\n\nconst A = lib.LK * 2 + al.AK\nconst B = \"x\"\nconst C = yes\nconst D = A - A\nconst E = B\nconst F = C\n",
    "max-field-numbers": "proto u\n\nmessage In {\n    bool a = 255\n    uint3[2] b = 254\n}\n\nmessage M {\n    In i = 255\n    In[2] is = 254\n    int64 w = 1\n}\n",
    "options-everywhere": "proto u\n\noption c.name_prefix = \"u_\"\noption c.struct_packing_alignment = 1\noption go.package_path = \"x/u\"\noption py.module_name = \"umod\"\n\nmessage M {\n    option max_bytes = 3\n    message N {\n        option max_bytes = 1\n        bool x = 1\n    }\n    N n = 1\n    uint9 v = 2\n}\n",
    "imported-everything": "proto u\n\nimport \"lib.bitproto\"\nimport al \"lia.bitproto\"\n\ntype LEs = lib.LE[2]\n\nmessage M {\n    lib.LE e = 1\n    lib.LM m = 2\n    al.AM[2]' ams = 3\n    LEs les = 4\n    bool[lib.LK] bits = 5\n}\n",
    "deep-nesting": "proto u\n\nmessage A {\n    message B {\n        message C {\n            message D {\n                enum E : uint2 {\n                    E_Z = 0\n                }\n                E e = 1\n            }\n            D d = 1\n        }\n        C c = 1\n        C.D cd = 2\n    }\n    B b = 1\n    B.C.D.E far = 2\n}\n",
}
QUICK_SEEDS = ["basic", "nested", "imports", "empty", "arith", "semis", "odd", "unders"]

AUX = {
    "lib.bitproto": "proto lib\n\nconst LK = 2\n\nenum LE : uint2 {\n    LE_A = 0\n}\n\nmessage LM {\n    bool z = 1\n}\n",
    "lia.bitproto": "proto lia\n\nconst AK = 5\n\nmessage AM {\n    bool y = 1\n}\n",
}

VOCAB = ["proto", "import", "option", "type", "const", "enum", "message", "typedef",
         ":", ";", "{", "}", "[", "]", "(", ")", "/", "=", "\\", "'", ".", "+", "-", "*",
         "bool", "byte", "uint0", "uint1", "uint64", "uint65", "int0", "int65", "int8",
         "0", "1", "255", "65536", "4294967296", "9" * 5000, "0x", "0xFF", "0xFFFFFFFFFFFFFFFFFF",
         "x", "Foo", "a.b", "lib.LE", "typex", "proto_x", "Color", "MAX", "_", "__", "_x", "a__b", "X_",
         '"s"', '""', '"a\\"b"', '"\\q"', '"unterminated', '"lib.bitproto"',
         "true", "yes", "no", "// c", "\n", "\x00", "é", "/*", "#", ","]

TOKEN_RE = re.compile(r'"(?:[^"\\\n]|\\.)*"|//[^\n]*|0x[0-9a-fA-F]+|[A-Za-z_][A-Za-z0-9_]*|[0-9]+|\n|[^\sA-Za-z0-9_]')


def tokenize(text):
    """[(start, end)] of tokens; whitespace between tokens is kept by position."""
    return [(m.start(), m.end()) for m in TOKEN_RE.finditer(text)]


def edits(text):
    """All single-token edits (yielding (label, new text))."""
    toks = tokenize(text)
    for i, (a, b) in enumerate(toks):
        yield ("delete", i, text[a:b][:12]), text[:a] + text[b:]
        for v in VOCAB:
            if v != text[a:b]:
                yield ("replace", i, text[a:b][:12], v[:12]), text[:a] + v + text[b:]
        for v in VOCAB:
            yield ("insert", i, v[:12]), text[:a] + v + " " + text[a:]
        if i + 1 < len(toks):
            c, d = toks[i + 1]
            yield ("swap", i), text[:a] + text[c:d] + text[b:c] + text[a:b] + text[d:]
    for v in VOCAB:
        yield ("append", v[:12]), text + v


# characters that str.split()/str.strip()/str.isspace() treat as blank but the lexer does not skip, other control characters, BOM
ODD_CHARS = ["\x0c", "\x0b", "\x1c", "\x1d", "\x1e", "\x1f", "\x85", "\u00a0", "\u1680", "\u2000", "\u2028", "\u2029", "\u3000", "\ufeff", "\x7f", "\x01",
             "\r", "\x1a"]


def odd_positions(text):
    """One odd character at the very end (alone, before a final newline, between blanks), at the very start, and at the end of every line."""
    for ch in ODD_CHARS:
        lab = "U+%04X" % ord(ch)
        yield ("odd-append", lab), text + ch
        yield ("odd-append-newline", lab), text + ch + "\n"
        yield ("odd-append-blanks", lab), text + " " + ch + "  \n"
        yield ("odd-prepend", lab), ch + text
        lines = text.split("\n")
        for k in range(len(lines) - 1):
            yield ("odd-line-end", k, lab), "\n".join(lines[:k] + [lines[k] + ch] + lines[k + 1:])


def truncations(text):
    for k in range(len(text)):
        yield ("truncate", k), text[:k]
    for k in range(len(text)):
        yield ("delete_byte", k), text[:k] + text[k + 1:]


CONTEXTS = [
    ("top", "proto ctx\n@@\n"),
    ("message", "proto ctx\nmessage M {\n@@\n}\n"),
    ("enum", "proto ctx\nenum E : uint3 {\n@@\n}\n"),
    ("const", "proto ctx\nconst A = 1\nconst X = @@\n"),
    ("option", "proto ctx\nmessage M {\noption max_bytes = @@\n}\n"),
    ("capacity", "proto ctx\nconst A = 2\nmessage M {\nbool[@@] f = 1\n}\n"),
    ("alias", "proto ctx\ntype X = @@\n"),
    ("import", "proto ctx\nimport @@\n"),
    ("field", "proto ctx\nenum E : uint2 { E_A = 0 }\nmessage M {\nE @@\n}\n"),
]
FRAG_VOCAB = ["proto", "import", "option", "type", "const", "enum", "message", ":", ";", "{", "}", "[", "]", "(", ")", "/", "=", "'", ".",
              "+", "-", "*", "bool", "uint3", "uint0", "uint3[2]", "0", "1", "3", "0x", "A", "E", "M", "x", "a.b", '"s"', '"lib.bitproto"', "true", "\n",
              "x = 1", "E : uint3", "max_bytes"]


def fragments(tier):
    n = 2 if tier == "quick" else 3
    for cname, ctx in CONTEXTS:
        for k in range(0, n + 1):
            for combo in itertools.product(FRAG_VOCAB if k < 3 else FRAG_VOCAB[:26], repeat=k):
                yield ("fragment", cname, combo), ctx.replace("@@", " ".join(combo))


def import_answers():
    """Environment answers for an import: missing, a directory, empty, itself invalid."""
    base = SEEDS["imports"]
    yield ("import-missing",), base.replace('"lib.bitproto"', '"missing.bitproto"'), {}
    yield ("import-directory",), base.replace('"lib.bitproto"', '"adir"'), {"adir/": None}
    yield ("import-empty",), base, {"lib.bitproto": ""}
    yield ("import-no-proto-name",), base, {"lib.bitproto": "const LK = 2\n"}
    yield ("import-binary",), base, {"lib.bitproto": "\x00\x01\x02\xff"}
    # cycles, under several spellings of the same file (the main file exists on disk for these)
    lib = AUX["lib.bitproto"]
    for label, imp_main, imp_lib, extra in (
            ("import-self", None, None, {}),
            ("import-cycle", '"lib.bitproto"', '"main.bitproto"', {}),
            ("import-cycle-dot", '"./lib.bitproto"', '"main.bitproto"', {}),
            ("import-cycle-dot2", '"lib.bitproto"', '"./main.bitproto"', {}),
            ("import-cycle-subdir", '"sub/lib2.bitproto"', None, {"sub/": None, "sub/lib2.bitproto": "proto lib2\n\nimport \"../main.bitproto\"\n"}),
            ("import-cycle-updown", '"lib.bitproto"', '"sub/../main.bitproto"', {"sub/": None})):
        if imp_main is None:
            for spelling in ('"main.bitproto"', '"./main.bitproto"'):
                t = base.replace('"lib.bitproto"', spelling)
                yield (label, spelling), t, {"main.bitproto": t}
            continue
        t = base.replace('"lib.bitproto"', imp_main)
        aux = dict(extra, **{"main.bitproto": t})
        if imp_lib is not None:
            aux["lib.bitproto"] = lib.replace("\n", "\nimport %s\n" % imp_lib, 1) if lib.startswith("proto") else lib
        yield (label,), t, aux
    for label, mutated in itertools.islice(edits(AUX["lib.bitproto"]), 0, None, 7):
        yield ("import-invalid",) + tuple(map(str, label)), base, {"lib.bitproto": mutated}


def all_inputs(tier):
    """List of (label, text, aux overrides)."""
    out = []
    names = QUICK_SEEDS if tier == "quick" else list(SEEDS)
    for n in names:
        out.append((("seed", n), SEEDS[n], {}))
        for label, t in edits(SEEDS[n]):
            out.append(((n,) + tuple(map(str, label)), t, {}))
    for n in names[:3] if tier == "quick" else names:
        for label, t in truncations(SEEDS[n]):
            out.append(((n,) + tuple(map(str, label)), t, {}))
    for n, t in UNUSUAL.items():
        out.append((("unusual", n), t, {}))
    for n in names:
        for label, t in odd_positions(SEEDS[n]):
            out.append(((n,) + tuple(map(str, label)), t, {}))
    for label, t in fragments(tier):
        out.append((tuple(map(str, label)), t, {}))
    for label, t, aux in import_answers():
        out.append((label, t, aux))
    # byte-level: files that are not valid UTF-8 (e.g. saved as Latin-1), BOM, UTF-16
    for n in names[:3]:
        data = SEEDS[n].encode()
        for k in range(0, len(data), 9 if tier == "quick" else 2):
            for b in (0xE9, 0xFF, 0x80):
                out.append(((n, "byte", str(k), hex(b)), data[:k] + bytes([b]) + data[k + 1:], {}))
        out.append(((n, "byte", "bom"), b"\xef\xbb\xbf" + data, {}))
        out.append(((n, "byte", "utf16"), SEEDS[n].encode("utf-16"), {}))
        out.append(((n, "byte", "truncated-utf8"), data + b"// caf\xc3", {}))
    if tier == "thorough":
        # k = 2 edits on the two smallest seeds (every 3rd first edit x every 5th second edit)
        for n in ("empty", "semis"):
            for l1, t1 in itertools.islice(edits(SEEDS[n]), 0, None, 7):
                for l2, t2 in itertools.islice(edits(t1), 0, None, 11):
                    out.append(((n, "2-edits") + tuple(map(str, l1)) + tuple(map(str, l2)), t2, {}))
    return out


_INPUTS = {}


def inputs(tier):
    if tier not in _INPUTS:
        _INPUTS[tier] = all_inputs(tier)
    return _INPUTS[tier]


def features_of(text, label):
    f = []
    if len(label) > 1 and label[1] == "byte":
        f.append("not_utf8_file")
    if re.search(r"/\s*\(?\s*0(?![x0-9])", text) or re.search(r"/\s*0x0+\b", text):
        f.append("division_by_literal_zero")
    if re.search(r"[0-9]{4301,}", text):
        f.append("huge_number")
    if re.search(r"(message|enum)[^{}]*\{[^{}]*\bimport\b", text, re.S) or "import" in str(label):
        f.append("import_keyword")
    if re.search(r"enum\s+\w+\s*:\s*uint[0-9]+\s*\{\s*(//[^\n]*\s*)*\}", text):
        f.append("enum_without_members")
    return f


def run_unit(unit):
    _, tier, lo, hi = unit
    bind.bind()
    from bitproto.errors import ParserError, RendererError
    from bitproto.parser import parse_string
    from bitproto.renderer.impls import renderer_registry
    ins = inputs(tier)[lo:hi]
    out = UnitOut()
    with Scratch() as sc:
        base = sc.sub("base")
        for fn, tx in AUX.items():
            with open(os.path.join(base, fn), "w") as f:
                f.write(tx)
        for k, (label, text, aux) in enumerate(ins):
            d = base
            if aux:
                d = sc.sub("a%d" % k)
                for fn, tx in sorted(dict(AUX, **aux).items(), key=lambda kv: not kv[0].endswith("/")):
                    if fn.endswith("/"):
                        os.makedirs(os.path.join(d, fn), exist_ok=True)
                    else:
                        with open(os.path.join(d, fn), "w") as f:
                            f.write(tx)
            path = os.path.join(d, "main.bitproto")
            is_bytes = isinstance(text, bytes)
            if is_bytes:
                d = sc.sub("b%d" % k)
                for fn, tx in AUX.items():
                    with open(os.path.join(d, fn), "w") as f:
                        f.write(tx)
                path = os.path.join(d, "main.bitproto")
                with open(path, "wb") as f:
                    f.write(text)
                raw = text
                text = text.decode("latin-1")
            if not is_bytes:
                # the main file exists on disk under the name the parser is told (imports compare files by identity)
                with open(path, "w", encoding="utf-8", errors="surrogateescape", newline="") as f:
                    f.write(text)
            out.count("states")
            out.count("transitions")
            out.count("evaluations")
            out.count("traces")
            out.cls("kind:" + (label[1] if len(label) > 1 and label[0] in SEEDS else label[0]))
            proto, err = None, None
            t1 = time.time()
            try:
                with watchdog(10), quiet_stderr():
                    if is_bytes:
                        from bitproto.parser import parse as parse_path
                        proto = parse_path(path)
                    else:
                        proto = parse_string(text, filepath=path)
            except (ParserError, OSError) as e:
                err = e
                if label[0] in ("seed", "unusual"):
                    out.count("valid_seed_rejected")  # vacuity guard (every seed is a valid schema)
            except Timeout as e:
                out.violation(check="parse", symptom="hang", site="parse", features=features_of(text, label), desc="input %r: no result within 10 s" % (label,),
                              schema={"main.bitproto": text[:5000]}, replay=dict(kind="c09", text=text, aux=aux, raw=(raw.hex() if is_bytes else None)))
                continue
            except BaseException as e:  # noqa
                out.count("nontrivial")
                out.violation(check="parse", symptom=type(e).__name__, site=repo_site(e), features=features_of(text, label),
                              sig_features=features_of(text, label),
                              desc="input %r: parse escaped with %s: %s" % (label, type(e).__name__, str(e)[:200]), detail=exc_summary(e),
                              schema={"main.bitproto": text[:5000]}, replay=dict(kind="c09", text=text, aux=aux, raw=(raw.hex() if is_bytes else None)))
                continue
            out.outcome(type(err).__name__ if err else "accepted", label[:2])
            if err is not None:
                out.count("rejected")
                out.count("nontrivial")
                continue
            out.count("accepted")
            # second half: every renderer on every accepted result
            variants = [("c", {}), ("go", {}), ("py", {})]
            trad = None
            try:
                with quiet_stderr():
                    trad = parse_string(text, filepath=path, traditional_mode=True)
            except BaseException:
                trad = None
            if trad is not None:
                for endian in ("both", "little", "big"):
                    variants.append(("c", dict(optimization_mode=True, optimization_mode_endian=endian)))
                variants.append(("go", dict(optimization_mode=True)))
            for lang, kw in variants:
                for cls in renderer_registry[lang]:
                    out.count("renders")
                    out.count("evaluations")
                    try:
                        with watchdog(20), quiet_stderr():
                            r = cls(trad if kw else proto, outdir=d, **kw)
                            s = r.render_string()
                        if not isinstance(s, str):
                            raise TypeError("render_string returned %r" % type(s))
                    except RendererError:
                        pass
                    except BaseException as e:  # noqa
                        out.violation(check="render", symptom=type(e).__name__, site=repo_site(e), features=features_of(text, label) + ["lang:" + lang],
                                      sig_features=features_of(text, label),
                                      desc="input %r accepted, %s%s rendering escaped with %s: %s" % (label, lang, " -O" if kw else "", type(e).__name__, str(e)[:200]),
                                      detail=exc_summary(e), schema={"main.bitproto": text[:5000]}, replay=dict(kind="c09", text=text, aux=aux, raw=(raw.hex() if is_bytes else None)))
                        break
            if k % 997 == 0:
                out.sample(dict(label=list(label)[:5], text=text[:200], outcome="accepted"))
        out.sample(dict(label=list(ins[-1][0])[:5], text=ins[-1][1][:200]))
    return out.result()


def units(tier):
    n = len(inputs(tier))
    step = 400
    return [("P", tier, i, min(n, i + step)) for i in range(0, n, step)]


def main(pid, tier):
    t0 = time.time()
    acc = Acc()
    acc.merge(run_units(units(tier), run_unit, maxtasks=4))
    c = acc.counters
    g = []
    for need in ("kind:delete", "kind:replace", "kind:insert", "kind:swap", "kind:truncate", "kind:delete_byte", "kind:fragment", "kind:import-invalid", "kind:byte"):
        if acc.classes.get(need, 0) < 1:
            g.append("no input of " + need)
    if c["accepted"] < 100 or c["rejected"] < 1000:
        g.append("accepted=%d rejected=%d" % (c["accepted"], c["rejected"]))
    if c["valid_seed_rejected"] > 2:
        g.append("%d of the valid seed schemas were rejected (harness or tree problem: the edits of a rejected seed explore nothing)" % c["valid_seed_rejected"])
    cov = dict(states=c["states"], transitions=c["transitions"], traces_validated_against_impl=c["traces"], evaluations=c["evaluations"],
               distinct_nontrivial=c["nontrivial"], accepted=c["accepted"], rejected=c["rejected"], renders=c["renders"],
               seeds=QUICK_SEEDS if tier == "quick" else list(SEEDS), vocabulary=len(VOCAB),
               rule="all single-token edits (delete, replace by each of %d vocabulary representatives, insert each before every position, swap "
                    "neighbours, append) of the seeds, all truncations and single-byte deletions, all fragments of <= %d tokens in %d grammar "
                    "contexts, import environment answers (missing, directory, empty, invalid imported file); every accepted input rendered by every "
                    "renderer (c .h/.c, go, py; -O x 3 endians and go -O when traditional); oracle: Proto | ParserError | OSError, str | "
                    "RendererError, 10 s watchdog; non-trivial = input not accepted" % (len(VOCAB), 2 if tier == "quick" else 3, len(CONTEXTS)),
               exhaustive=True, bound="k=1 token edits%s; fragments <= %d tokens" % ("" if tier == "quick" else " (+ a strided k=2 layer (every 7th first edit x every 11th second edit) on two seeds; 3-token fragments over the first 26 vocabulary items)", 2 if tier == "quick" else 3))
    return finish(PID, tier, acc, cov, t0, assumptions=["deep nesting (RecursionError near 1000 levels) is outside the bound"], guards=g)


def replay(payload):
    bind.bind()
    from bitproto.errors import ParserError, RendererError
    from bitproto.parser import parse_string
    from bitproto.renderer.impls import renderer_registry
    r = payload["replay"]
    with Scratch() as sc:
        for fn, tx in sorted(dict(AUX, **(r.get("aux") or {})).items(), key=lambda kv: not kv[0].endswith("/")):
            if fn.endswith("/"):
                os.makedirs(os.path.join(sc.dir, fn), exist_ok=True)
            else:
                with open(os.path.join(sc.dir, fn), "w") as f:
                    f.write(tx)
        try:
            with quiet_stderr():
                if r.get("raw"):
                    from bitproto.parser import parse as parse_path
                    with open(os.path.join(sc.dir, "main.bitproto"), "wb") as f:
                        f.write(bytes.fromhex(r["raw"]))
                    p = parse_path(os.path.join(sc.dir, "main.bitproto"))
                else:
                    p = parse_string(r["text"], filepath=os.path.join(sc.dir, "main.bitproto"))
        except (ParserError, OSError) as e:
            print("NOT REPRODUCED (clean rejection: %s)" % type(e).__name__)
            return 0
        except BaseException as e:  # noqa
            print("REPRODUCED: %s: %s" % (type(e).__name__, e))
            return 1
        for lang in ("c", "go", "py"):
            for cls in renderer_registry[lang]:
                try:
                    with quiet_stderr():
                        cls(p, outdir=sc.dir).render_string()
                except RendererError:
                    pass
                except BaseException as e:  # noqa
                    print("REPRODUCED (render %s): %s: %s" % (lang, type(e).__name__, e))
                    return 1
    print("NOT REPRODUCED")
    return 0
