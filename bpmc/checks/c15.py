"""C15: generated API names follow the documented scheme."""
import itertools
import json
import os
import re
import subprocess
import sys
import time

from .. import bind, gofront
from ..evidence import finish
from ..explore import Acc, UnitOut, exc_summary, repo_site, run_units
from ..pyback import Scratch, quiet_stderr

PID = "C15"

WORDS = ["Pen", "Zoo", "Monkey", "BoxLid"]
# conforming names with one-letter words (only where names are not concatenated: a capital next to a capital would be an acronym)
WORDS_B = ["PointA", "Cd", "LongNameHere", "Q", "Sensor2"]
# names with a digit (the linter accepts them as PascalCase); whether the digit gets its own word in UPPER_SNAKE is not
# documented, so macro names are compared modulo underscores next to digits - but they must be cased the same way
# with and without a prefix, nested and at top level
WORDS_C = [("Hub", "Port2", "Zoo", "Pen"), ("Port2", "Hub", "Zoo", "Pen"), ("Zoo", "Pen", "Port2", "Hub"), ("V2Id", "Pen", "Hub", "Zoo")]


def nd(name):
    """Normal form modulo underscores next to digits."""
    return re.sub(r"_(?=\d)|(?<=\d)_", "", name)
PREFIXES = [None, "my_prefix_", "ab_"]


def upper_snake(name):
    """UPPER_SNAKE of a PascalCase name without digits/acronyms (the documented alphabet)."""
    return re.sub(r"(?<=[a-z])(?=[A-Z])", "_", name).upper()


def pascal_prefix(p):
    return "".join(w[:1].upper() + w[1:] for w in p.split("_") if w) if p else ""


def skeletons():
    """Each skeleton: function(names[4]) -> model.  model = dict(files={stem: [defs]}, main=stem)
    def: ("msg", name, children, fields) | ("enum", name, members) | ("alias", name, type) | ("const", name, value text)"""
    def flat(n):
        return dict(main="pen", files={"pen": [
            ("const", "SOF", "1"), ("const", "PEN_ARRAY_SIZE", "2"),
            ("enum", "Color", [("COLOR_UNKNOWN", 0), ("COLOR_RED", 1)]),
            ("alias", "Timestamp", "int64"),
            ("msg", n[0], [], [("bool", "ok", 1), ("uint7", "lucy_number", 2), ("Color", "color", 3), ("Timestamp[PEN_ARRAY_SIZE]", "ts", 4),
                               ("bool", "x", 5), ("bool", "is_ok", 6), ("uint3", "a_b_c", 7)]),
            ("msg", n[1], [], [("%s" % n[0], "first", 1), ("%s[2]" % n[0], "many", 2)]),
        ]})

    def nested2(n):
        return dict(main="pen", files={"pen": [
            ("enum", "Color", [("COLOR_UNKNOWN", 0), ("COLOR_RED", 1)]),
            ("msg", n[0], [("enum", "Food", [("FOOD_NUT", 0), ("FOOD_LEAF", 1)]),
                           ("msg", n[1], [], [("bool", "ok", 1), ("Food", "food", 2)])],
             [(n[1], "lucy_number", 1), ("Color", "color", 2), ("Food[2]", "foods", 3)]),
            ("msg", n[2], [], [("%s.%s" % (n[0], n[1]), "far", 1), ("%s.Food" % n[0], "ff", 2)]),
        ]})

    def nested3(n):
        return dict(main="pen", files={"pen": [
            ("msg", n[0], [("msg", n[1], [("enum", "Mood", [("MOOD_OK", 0)]),
                                           ("msg", n[2], [], [("bool", "ok", 1), ("Mood", "mood", 2)])],
                            [(n[2], "inner", 1)])],
             [(n[1], "mid", 1), ("%s.%s" % (n[1], n[2]), "deep", 2), ("%s.Mood" % n[1], "mm", 3)]),
            ("msg", n[3], [], [("%s.%s.%s" % (n[0], n[1], n[2]), "far", 1)]),
        ]})

    def imports(n):
        return dict(main="pen", files={
            "shared": [("const", "LIMIT", "3"), ("enum", "Mode", [("MODE_OFF", 0), ("MODE_ON", 1)]),
                       ("msg", n[2], [("msg", n[3], [], [("bool", "ok", 1)])], [("uint5", "lucy_number", 1), (n[3], "lid", 2)])],
            "pen": [("import", "shared"),
                    ("msg", n[0], [], [("shared.%s" % n[2], "got", 1), ("shared.Mode", "mode", 2), ("shared.%s.%s" % (n[2], n[3]), "lid", 3)]),
                    ("msg", n[1], [], [(n[0], "p", 1)])]})

    def dotted(n):
        # file names with additional dots and upper case: <schema file base name>_bp keeps everything but the last extension
        m = imports(n)
        return dict(main="Pen.v2", proto_names={"Pen.v2": "pen", "shared.v1": "shared"},
                    files={"shared.v1": m["files"]["shared"], "Pen.v2": [("import", "shared.v1")] + m["files"]["pen"][1:]})

    return [("flat", flat), ("nested2", nested2), ("nested3", nested3), ("imports", imports), ("dotted", dotted)]


def states(tier):
    out = []
    perms = list(itertools.permutations(WORDS))
    for sname, fn in skeletons():
        for perm in perms:
            for prefix in PREFIXES:
                out.append((sname, perm, prefix))
    for pair in itertools.permutations(WORDS_B, 2):
        for prefix in PREFIXES:
            out.append(("flat", tuple(pair) + ("Zoo", "Pen"), prefix))
    for perm in WORDS_C:
        for sname in ("nested2", "nested3", "imports"):
            for prefix in PREFIXES:
                out.append((sname, perm, prefix))
    return out


def render_text(model, stem, prefix):
    lines = ["proto %s" % model.get("proto_names", {}).get(stem, stem), ""]
    if prefix and stem == model["main"]:
        lines += ['option c.name_prefix = "%s"' % prefix, ""]

    def emit(d, depth):
        ind = "    " * depth
        if d[0] == "import":
            lines.append('%simport "%s.bitproto"' % (ind, d[1]))
        elif d[0] == "const":
            lines.append("%sconst %s = %s" % (ind, d[1], d[2]))
        elif d[0] == "alias":
            lines.append("%stype %s = %s" % (ind, d[1], d[2]))
        elif d[0] == "enum":
            lines.append("%senum %s : uint3 {" % (ind, d[1]))
            for n, v in d[2]:
                lines.append("%s    %s = %d" % (ind, n, v))
            lines.append("%s}" % ind)
        elif d[0] == "msg":
            lines.append("%smessage %s {" % (ind, d[1]))
            for c in d[2]:
                emit(c, depth + 1)
            for t, n, k in d[3]:
                lines.append("%s    %s %s = %d" % (ind, t, n, k))
            lines.append("%s}" % ind)
        lines.append("") if depth == 0 else None

    for d in model["files"][stem]:
        emit(d, 0)
    return "\n".join(lines) + "\n"


def expected(model, stem, prefix):
    """Names required by the documented scheme for the file `stem`.
    Returns dict(c=dict(types, structs, funcs, macros, fields), py=..., go=...)."""
    P, U = pascal_prefix(prefix), (prefix or "").upper()
    exp = dict(c=dict(typedefs=set(), structs={}, funcs=set(), std_only_funcs=set(), macros=set()),
               py=dict(classes={}, enums={}, names=set()), go=dict(structs={}, types=set(), consts=set(), path_orders=[]))

    def rec(d, path):
        k = d[0]
        if k == "const":
            exp["c"]["macros"].add(U + d[1])
            exp["py"]["names"].add(d[1])
            exp["go"]["consts"].add(d[1])
        elif k == "alias":
            exp["c"]["typedefs"].add(P + d[1])
            exp["py"]["names"].add(d[1])
            exp["go"]["types"].add(d[1])
        elif k == "enum":
            cname = P + "".join(path) + d[1]
            exp["c"]["typedefs"].add(cname)
            pyname = "_".join(path + [d[1]])
            exp["py"]["enums"][pyname] = [m for m, v in d[2]] if not path else None
            exp["go"]["path_orders"].append(("type", path + [d[1]]))
            for m, v in d[2]:
                if not path:
                    exp["c"]["macros"].add(U + m)
                    exp["go"]["consts"].add(m)
                    exp["py"]["names"].add(m)
                else:
                    exp["c"].setdefault("ordered_macros", []).append([U.rstrip("_")] * bool(U) + [upper_snake(p) for p in path] + [m])
                    exp.setdefault("nested_members", []).append((list(path), m))
        elif k == "msg":
            flat = "".join(path) + d[1]
            cname = P + flat
            exp["c"]["structs"][cname] = [f[1] for f in sorted(d[3], key=lambda f: f[2])]
            exp["c"]["funcs"].update(["Encode" + cname, "Decode" + cname])
            exp["c"]["std_only_funcs"].add("Json" + cname)
            exp["c"]["macros"].add("BYTES_LENGTH_" + (U if U.endswith("_") or not U else U + "_") + upper_snake(flat) if False else "BYTES_LENGTH_" + upper_snake_prefixed(prefix, flat))
            exp["py"]["classes"]["_".join(path + [d[1]])] = [f[1] for f in sorted(d[3], key=lambda f: f[2])]
            if not path:
                exp["go"]["structs"][d[1]] = [f[1] for f in sorted(d[3], key=lambda f: f[2])]
            else:
                exp["go"]["path_orders"].append(("struct", path + [d[1]], [f[1] for f in sorted(d[3], key=lambda f: f[2])]))
            for c in d[2]:
                rec(c, path + [d[1]])

    for d in model["files"][stem]:
        rec(d, [])
    return exp


def upper_snake_prefixed(prefix, flat):
    """BYTES_LENGTH_<UPPER_SNAKE_NAME> where NAME is the C type name (prefix included)."""
    if not prefix:
        return upper_snake(flat)
    words = [w for w in prefix.split("_") if w]
    return "_".join([w.upper() for w in words] + [upper_snake(flat)])


def names_nested_member(name, path, member):
    """`name` = the enclosing names, each verbatim or in UPPER_SNAKE (words kept apart), in order, followed by the member's own name.
    Compared modulo underscores next to digits (see nd)."""
    name, member = nd(name), nd(member)
    if not name.endswith(member):
        return False
    head, pos = name[:len(name) - len(member)], 0
    for p in path:
        hits = [(head.find(v, pos), len(v)) for v in (nd(p), nd(upper_snake(p))) if head.find(v, pos) >= 0]
        if not hits:
            return False
        k, n = min(hits)
        pos = k + n
    return True


def contains_in_order(name, parts):
    pos = 0
    low = name.lower()
    for p in parts:
        k = low.find(p.lower().replace("_", ""), pos) if False else low.replace("_", "").find(p.lower().replace("_", ""), pos)
        if k < 0:
            return False
        pos = k + len(p.replace("_", ""))
    return True


def compile_all(d, model, prefix, lang, optimize=False):
    from ..cback import render_c_files
    from ..pyback import render_all_files, parse_file, renderer_classes
    out = os.path.join(d, "out_%s%s" % (lang, "_O" if optimize else ""))
    os.makedirs(out, exist_ok=True)
    main = os.path.join(d, model["main"] + ".bitproto")
    if lang == "c":
        return out, render_c_files(main, out, optimize=optimize)
    if lang == "py":
        texts, _ = render_all_files(main, "py", out)
        return out, texts
    texts = {}
    seen = set()

    def rec(path):
        if path in seen:
            return
        seen.add(path)
        with quiet_stderr():
            p = parse_file(path, traditional_mode=optimize)
        for _, child in p.protos(recursive=False):
            rec(child.filepath)
        r = renderer_classes("go")[0](p, outdir=out, **(dict(optimization_mode=True) if optimize else {}))
        texts[r.out_filename] = r.render_string()
        with open(os.path.join(out, r.out_filename), "w") as f:
            f.write(texts[r.out_filename])

    rec(main)
    return out, texts


def run_unit(unit):
    _, tier, lo, hi = unit
    bind.bind()
    sts = states(tier)[lo:hi]
    sk = dict(skeletons())
    out = UnitOut()
    with Scratch() as sc:
        cache = {}
        for k, (sname, perm, prefix) in enumerate(sts):
            model = sk[sname](list(perm))
            d = sc.sub("s%d" % k)
            files = {}
            for stem in model["files"]:
                files[stem + ".bitproto"] = render_text(model, stem, prefix)
                with open(os.path.join(d, stem + ".bitproto"), "w") as f:
                    f.write(files[stem + ".bitproto"])
            out.count("states")
            out.cls("skeleton:" + sname)
            out.cls("prefix:%s" % prefix)
            desc = "skeleton %s names %s prefix %r" % (sname, list(perm), prefix)
            exp = expected(model, model["main"], prefix)

            def viol(check, symptom, detail, lang):
                out.violation(check=check, symptom=symptom, site="compiler/bitproto/renderer/formatter.py", features=["lang:" + lang, "skeleton:" + sname],
                              sig_features=[check, symptom, lang, sname], desc="%s [%s] :: %s" % (desc, lang, detail[:500]), detail=detail, schema=files,
                              replay=dict(kind="c15", state=[sname, list(perm), prefix]))

            try:
                # ------------------------------------------------------------- C (standard and -O)
                for optimize in (False, True):
                    lang = "c -O" if optimize else "c"
                    odir, texts = compile_all(d, model, prefix, "c", optimize)
                    out.count("evaluations")
                    out.count("transitions")
                    want_files = {model["main"] + "_bp.h", model["main"] + "_bp.c"} | {s + "_bp.h" for s in model["files"]} | {s + "_bp.c" for s in model["files"]}
                    if set(os.listdir(odir)) != want_files:
                        viol("files", "wrong_file_names", "written %s expected %s" % (sorted(os.listdir(odir)), sorted(want_files)), lang)
                    h = texts[model["main"] + "_bp.h"]
                    structs = dict((n, re.findall(r"^\s+[^/\n]*?\b(\w+)(?:\[\w+\])*;", body, re.M)) for n, body in re.findall(r"^struct (\w+) \{\n(.*?)^\}", h, re.M | re.S))
                    typedefs = set(re.findall(r"^typedef [\w ]+? (\w+)(?:\[\w+\])*;", h, re.M))
                    macros = set(re.findall(r"^#define (\w+) ", h, re.M)) - {"__BITPROTO__%s_H__" % model.get("proto_names", {}).get(model["main"], model["main"]).upper(), "BITPROTO_OPTIMIZATION_MODE"}
                    funcs = set(re.findall(r"^int (\w+)\(", h, re.M))
                    for n, fields in exp["c"]["structs"].items():
                        if structs.get(n) != fields:
                            viol("c-names", "struct_or_fields", "struct %s with fields %s expected; header has %s" % (n, fields, {k2: v for k2, v in structs.items()}), lang)
                    if not exp["c"]["typedefs"] <= typedefs:
                        viol("c-names", "typedef", "typedefs %s expected; header has %s" % (sorted(exp["c"]["typedefs"]), sorted(typedefs)), lang)
                    if not {nd(x) for x in exp["c"]["macros"]} <= {nd(x) for x in macros}:
                        viol("c-names", "macro", "macros %s missing; header has %s" % (sorted({nd(x) for x in exp["c"]["macros"]} - {nd(x) for x in macros}), sorted(macros)), lang)
                    for parts in exp["c"].get("ordered_macros", []):
                        if not any(contains_in_order(mname, parts) for mname in macros):
                            viol("c-names", "nested_member_macro", "no macro names %s in that order; header has %s" % (parts, sorted(macros)), lang)
                    for npath, mem in exp.get("nested_members", []):
                        if not any(names_nested_member(mname, npath, mem) and mname.startswith((prefix or "").upper()) for mname in macros):
                            viol("c-names", "nested_member_name", "no macro is named by %s (verbatim or UPPER_SNAKE) followed by %s; header has %s" % (npath, mem, sorted(macros)), lang)
                    want_funcs = set(exp["c"]["funcs"]) | (set() if optimize else exp["c"]["std_only_funcs"])
                    if funcs != want_funcs:
                        viol("c-names", "functions", "declared %s expected %s" % (sorted(funcs), sorted(want_funcs)), lang)
                    # every C type/function/macro of the file carries the prefix
                    if prefix:
                        P, U = pascal_prefix(prefix), prefix.upper()
                        bad = [n for n in list(structs) + list(typedefs) if not n.startswith(P)] + [n for n in macros if not (n.startswith(U) or n.startswith("BYTES_LENGTH_" + U.rstrip("_")))] + \
                              [n for n in funcs if P not in n]
                        if bad:
                            viol("c-prefix", "name_without_prefix", "names without the prefix: %s" % bad, lang)
                    # symbols exported by the compiled object
                    obj = os.path.join(odir, "m.o")
                    r = subprocess.run(["gcc", "-std=gnu11", "-w", "-c", os.path.join(odir, model["main"] + "_bp.c"), "-o", obj, "-I", odir, "-I", bind.CLIB_DIR], capture_output=True, text=True)
                    if r.returncode:
                        viol("c-compile", "does_not_compile", r.stderr[-800:], lang)
                    else:
                        syms = set(l.split()[-1] for l in subprocess.run(["nm", "-g", "--defined-only", obj], capture_output=True, text=True).stdout.splitlines() if l.strip())
                        if not want_funcs <= syms:
                            viol("c-names", "exported_symbols", "object exports %s, expected at least %s" % (sorted(syms), sorted(want_funcs)), lang)
                    cache[(sname, perm, prefix, optimize)] = texts
                    # the prefix changes nothing else
                    base = cache.get((sname, perm, None, optimize))
                    if prefix and base is not None:
                        P, U = pascal_prefix(prefix), prefix.upper()
                        U2 = "_".join(w.upper() for w in prefix.split("_") if w) + "_"
                        for fn in texts:
                            erased = texts[fn].replace(U2, "").replace(U, "").replace(P, "")
                            if erased != base[fn]:
                                import difflib
                                diff = "\n".join(list(difflib.unified_diff(base[fn].split("\n"), erased.split("\n"), lineterm="", n=0))[:12])
                                viol("c-prefix", "prefix_changes_more_than_names", "%s differs from the unprefixed output after erasing the prefix:\n%s" % (fn, diff), lang)
                # ---------------------------------------------------------------- Python
                odir, texts = compile_all(d, model, prefix, "py")
                out.count("evaluations")
                out.count("transitions")
                want_files = {s + "_bp.py" for s in model["files"]}
                if set(f for f in os.listdir(odir) if f.endswith(".py")) != want_files:
                    viol("files", "wrong_file_names", "written %s expected %s" % (sorted(os.listdir(odir)), sorted(want_files)), "py")
                code = ("import sys, json, enum, dataclasses\nsys.path.insert(0, %r); sys.path.insert(0, %r)\nfrom bitprotolib import bp\nimport %s_bp as m\n"
                        "o = {'classes': {}, 'enums': {}, 'names': []}\n"
                        "for n in dir(m):\n"
                        "    v = getattr(m, n)\n"
                        "    if isinstance(v, type) and issubclass(v, bp.MessageBase) and v is not bp.MessageBase and v.__module__ == m.__name__:\n"
                        "        o['classes'][n] = {'fields': [f.name for f in dataclasses.fields(v) if not f.name.startswith('_enum_field_proxy__')], 'api': [a for a in ('encode','decode','to_json','to_dict','BYTES_LENGTH') if hasattr(v, a)]}\n"
                        "    elif isinstance(v, type) and issubclass(v, enum.IntEnum) and v.__module__ == m.__name__:\n"
                        "        o['enums'][n] = [e.name for e in v]\n"
                        "    elif not n.startswith('_'):\n"
                        "        o['names'].append(n)\n"
                        "print(json.dumps(o))\n" % (bind.PYLIB_DIR, odir, model["main"]))
                if "." in model["main"]:
                    # a module file name with additional dots cannot be imported by name: only the file names are checked
                    out.count("python_import_not_applicable_dotted_file_name")
                    r = None
                else:
                    r = subprocess.run([sys.executable, "-c", code], capture_output=True, text=True, timeout=120)
                if r is None:
                    pass
                elif r.returncode:
                    viol("py-import", "import_failed", r.stderr[-800:], "py")
                else:
                    o = json.loads(r.stdout)
                    for cn, fields in exp["py"]["classes"].items():
                        got = o["classes"].get(cn)
                        if got is None or got["fields"] != fields or got["api"] != ["encode", "decode", "to_json", "to_dict", "BYTES_LENGTH"]:
                            viol("py-names", "class_fields_api", "class %s fields %s with encode/decode/to_json/to_dict/BYTES_LENGTH expected; module has %s" % (cn, fields, o["classes"]), "py")
                    for en, members in exp["py"]["enums"].items():
                        if en not in o["enums"] or (members is not None and o["enums"][en] != members):
                            viol("py-names", "enum", "enum %s %s expected; module has %s" % (en, members, o["enums"]), "py")
                    for npath, mem in exp.get("nested_members", []):
                        if not any(names_nested_member(n2, npath, mem) for n2 in o["names"]):
                            viol("py-names", "nested_member_name", "no module-level name is named by %s (verbatim or UPPER_SNAKE) followed by %s; module has %s" % (npath, mem, sorted(o["names"])), "py")
                    if not exp["py"]["names"] <= set(o["names"]):
                        viol("py-names", "constants_aliases_members", "%s missing from module names" % sorted(exp["py"]["names"] - set(o["names"])), "py")
                base = cache.get((sname, perm, None, "py"))
                cache[(sname, perm, prefix, "py")] = texts
                if prefix and base is not None and base != texts:
                    viol("c-prefix", "c_option_changes_python_output", "python output differs with c.name_prefix set", "py")
                # -------------------------------------------------------------------- Go
                for optimize in (False, True):
                    lang = "go -O" if optimize else "go"
                    odir, texts = compile_all(d, model, prefix, "go", optimize)
                    out.count("evaluations")
                    out.count("transitions")
                    want_files = {s + "_bp.go" for s in model["files"]}
                    if set(os.listdir(odir)) != want_files:
                        viol("files", "wrong_file_names", "written %s expected %s" % (sorted(os.listdir(odir)), sorted(want_files)), lang)
                    try:
                        ast = gofront.parse(texts[model["main"] + "_bp.go"])
                    except gofront.GoSyntaxError as e:
                        raise bind.InfraError("gofront cannot read generated Go: %s" % e)
                    m = gofront.Machine(ast)
                    gstructs = dict((n, t[1]) for n, t in m.types.items() if t[0] == "struct")
                    gconsts = set(m.consts)
                    for sn, fields in exp["go"]["structs"].items():
                        got = gstructs.get(sn)
                        if got is None or [f[2] for f in got] != ['json:"%s"' % f for f in fields] or any(not f[0][:1].isupper() or f[0].replace("_", "").lower() != fl.replace("_", "").lower() for f, fl in zip(got, fields)):
                            viol("go-names", "struct_fields_tags", "struct %s with PascalCase fields tagged %s expected; file has %s" % (sn, fields, {k2: [(f[0], f[2]) for f in v] for k2, v in gstructs.items()}), lang)
                        for meth in ("Encode", "Decode", "Size"):
                            if (sn, meth) not in m.methods:
                                viol("go-names", "methods", "%s.%s missing" % (sn, meth), lang)
                        if nd("BYTES_LENGTH_" + upper_snake(sn)) not in {nd(x) for x in gconsts}:
                            viol("go-names", "size_constant", "BYTES_LENGTH_%s missing; consts %s" % (upper_snake(sn), sorted(gconsts)), lang)
                    if not exp["go"]["types"] <= set(m.types):
                        viol("go-names", "types", "%s missing" % sorted(exp["go"]["types"] - set(m.types)), lang)
                    if not exp["go"]["consts"] <= gconsts:
                        viol("go-names", "consts", "%s missing" % sorted(exp["go"]["consts"] - gconsts), lang)
                    for npath, mem in exp.get("nested_members", []):
                        if not any(names_nested_member(n2, npath, mem) for n2 in gconsts):
                            viol("go-names", "nested_member_name", "no constant is named by %s (verbatim or UPPER_SNAKE) followed by %s; consts %s" % (npath, mem, sorted(gconsts)), lang)
                    for po in exp["go"]["path_orders"]:
                        parts = po[1]
                        cands = [n for n in m.types if contains_in_order(n, parts) and n.lower().replace("_", "").endswith(parts[-1].lower())]
                        if not cands:
                            viol("go-names", "nested_name_order", "no Go type names %s in that order; types %s" % (parts, sorted(m.types)), lang)
                        elif po[0] == "struct":
                            if not any([f[2] for f in gstructs.get(c, [])] == ['json:"%s"' % f for f in po[2]] for c in cands):
                                viol("go-names", "nested_struct_fields", "nested struct %s fields %s" % (parts, po[2]), lang)
                    base = cache.get((sname, perm, None, lang))
                    cache[(sname, perm, prefix, lang)] = texts
                    if prefix and base is not None and base != texts:
                        viol("c-prefix", "c_option_changes_go_output", "go output differs with c.name_prefix set", lang)
                out.count("traces", 5)
                if prefix or sname != "flat":
                    out.count("nontrivial")
                out.outcome(sname, perm, prefix)
            except bind.InfraError:
                raise
            except Exception as e:
                viol("pipeline", type(e).__name__, exc_summary(e), "?")
            if k % 20 == 0:
                out.sample(dict(skeleton=sname, names=list(perm), prefix=prefix, expected_c_structs=sorted(exp["c"]["structs"]), expected_python_classes=sorted(exp["py"]["classes"])))
    return out.result()


def units(tier):
    # a unit must contain all prefixes of a (skeleton, perm): states() orders prefixes innermost
    n = len(states(tier))
    step = len(PREFIXES) * 3
    return [("P", tier, i, min(n, i + step)) for i in range(0, n, step)]


def main(pid, tier):
    t0 = time.time()
    acc = Acc()
    acc.merge(run_units(units(tier), run_unit, maxtasks=10))
    c = acc.counters
    g = []
    for need in ["skeleton:" + s for s, _ in skeletons()] + ["prefix:%s" % p for p in PREFIXES]:
        if acc.classes.get(need, 0) < 1:
            g.append("no state of " + need)
    cov = dict(states=c["states"], transitions=c["transitions"], traces_validated_against_impl=c["traces"], evaluations=c["evaluations"],
               distinct_nontrivial=c["nontrivial"],
               rule="4 skeletons (flat, nesting depth 2, depth 3, imports with a nested type in the imported file) x permutations of the style-guide words "
                    "%s over the message roles x c.name_prefix in %s x {c, c -O, py, go, go -O}; names observed from the declarations in the generated "
                    "text, `nm -g --defined-only` of the compiled object, the imported python module (fresh interpreter), gofront's AST, os.listdir; "
                    "oracle: an independent implementation of the documented scheme; with a prefix, the output with the prefix erased must equal the "
                    "unprefixed output and python/go outputs must be unchanged; non-trivial = nested/imported skeleton or prefix set" % (WORDS, PREFIXES),
               exhaustive=True, bound="%d states" % len(states(tier)))
    return finish(PID, tier, acc, cov, t0, assumptions=["names with digits/acronyms are outside the documented alphabet", "Go nested names: order and presence only"], guards=g)


def replay(payload):
    bind.bind()
    import bpmc.checks.c15 as me
    sname, perm, prefix = payload["replay"]["state"]
    sts = [(sname, tuple(perm), None)] + ([(sname, tuple(perm), prefix)] if prefix else [])
    saved = me.states
    me.states = lambda tier: sts
    try:
        res = run_unit(("P", "quick", 0, len(sts)))
    finally:
        me.states = saved
    if res.get("violations"):
        print("REPRODUCED: %s" % res["violations"][0].get("desc"))
        return 1
    print("NOT REPRODUCED")
    return 0
