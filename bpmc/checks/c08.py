"""C08: a schema is accepted iff it satisfies the documented constraints; a rejection is a
ParserError citing the offending file and line, non-zero exit, no generated file.

State space: a skeleton (main file with nesting depth 3, enums, aliases, constants, two
imports) x one snippet from the constraint catalogue (violations and boundary-valid
constructs, both sides of every numeric limit) x every position of the snippet's scope kind
(top level / message at depth 1-3 / enum bodies / the imported file) x line shifts.
"""
import os
import subprocess
import sys
import time

from .. import bind
from ..evidence import finish
from ..explore import Acc, UnitOut, exc_summary, repo_site, run_units
from ..pyback import Scratch, quiet_stderr, watchdog

PID = "C08"

SKELETON = {
    "t.bitproto": """proto t

const EARLY = 2
const EARLY_STR = "one\\ntwo\\n\\n\\tq\\"x\\" \\\\n"

message Early {
    bool e = 1
}

import "lib.bitproto"
import al "lia.bitproto"
@TOP0@
const KONST = 3
const STR = "s"
const NEG = 0 - 1
const FLAG = true
const OFF = false

enum E : uint3 {
@ENUM_E@
    E_A = 0
    E_B = 1
}

type A1 = uint7
@TOP1@
message M {
@MSG_M0@
    enum E2 : uint2 {
@ENUM_E2@
        E2_A = 0
    }
    uint3 a = 1
    message N {
@MSG_N@
        bool b = 1
        message O {
@MSG_O@
            bool c = 1
        }
    }
@MSG_M1@
    N n = 2
@MSG_M2@
}

message Later {
}

const LATER = 1
@TOP2@
""",
    "lib.bitproto": """proto lib
const LSTR = "l\\n\\n"
@LIBTOP@
const LK = 2

enum LE : uint2 {
@LIBENUM@
    LE_A = 0
}

message LM {
@LIBMSG@
    bool z = 1
}
""",
    "lia.bitproto": """proto lia
const ASTR = "\\n"
@LIATOP@
const AK = 5

message AM {
@LIAMSG@
    bool y = 1
}
""",
    "cyc.bitproto": """proto cyc

import "t.bitproto"
""",
    "sub/cyc2.bitproto": """proto cyc2

import "../t.bitproto"
""",
    "sub/inner.bitproto": """proto inner

const IK = 1
""",
}

SLOTS = {
    "top": [("t.bitproto", "TOP0", 0), ("t.bitproto", "TOP1", 0), ("t.bitproto", "TOP2", 0), ("lib.bitproto", "LIBTOP", 0),
            ("lia.bitproto", "LIATOP", 0)],
    "msg": [("t.bitproto", "MSG_M0", 1), ("t.bitproto", "MSG_M1", 1), ("t.bitproto", "MSG_M2", 1), ("t.bitproto", "MSG_N", 2),
            ("t.bitproto", "MSG_O", 3), ("lib.bitproto", "LIBMSG", 1), ("lia.bitproto", "LIAMSG", 1)],
    "enum": [("t.bitproto", "ENUM_E", 1), ("t.bitproto", "ENUM_E2", 2), ("lib.bitproto", "LIBENUM", 1)],
}

# (tag, scope kind, snippet lines, accept?, note)   {n}: a free field number; names are unique per snippet
V = []


def add(tag, kind, lines, accept=False, only=None, family=None):
    V.append(dict(tag=tag, kind=kind, lines=lines if isinstance(lines, list) else [lines], accept=accept, only=only, family=family or tag.split(":")[0]))


# --- integer widths (both sides of the limits), as field type, array element and alias target
for t in ("uint", "int"):
    for w, ok in ((0, False), (1, True), (64, True), (65, False)):
        add("width:%s%d:field" % (t, w), "msg", "%s%d zz = 201" % (t, w), ok)
        add("width:%s%d:array" % (t, w), "msg", "%s%d[2] zz = 201" % (t, w), ok)
        add("width:%s%d:alias" % (t, w), "top", "type ZZ = %s%d" % (t, w), ok)
# --- array capacities
for cap, ok in ((0, False), (1, True), (65536, False)):
    add("cap:%d" % cap, "msg", "bool[%d] zz = 201" % cap, ok)
add("cap:65535", "top", ["message ZCap {", "    bool[65535] zz = 1", "}"], True)
add("cap:negative-const", "msg", "bool[NEG] zz = 201", False, only=["t.bitproto"])
add("cap:non-integer-const", "msg", "bool[STR] zz = 201", False, only=["t.bitproto"])
add("cap:const", "msg", "bool[KONST] zz = 201", True, only=["t.bitproto"])
add("cap:bool-const-true", "msg", "bool[FLAG] zz = 201", False, only=["t.bitproto"])
add("cap:bool-const-false", "msg", "bool[OFF] zz = 201", False, only=["t.bitproto"])
add("cap:imported-const", "msg", "bool[lib.LK] zz = 201", True, only=["t.bitproto"])
add("cap:type-as-const", "msg", "bool[E] zz = 201", False, only=["t.bitproto"])
add("cap:2d", "msg", "bool[2][3] zz = 201", False)
# --- field numbers
for n, ok in ((0, False), (255, True), (256, False)):
    add("fieldnumber:%d" % n, "msg", "bool zz = %d" % n, ok)
add("fieldnumber:duplicate", "msg", ["bool zz = 201", "bool zy = 201"], False)
add("fieldnumber:1", "top", ["message ZOne {", "    bool zz = 1", "}"], True)
# --- enum values
add("enumvalue:duplicate", "enum", ["ZZ_A = 1", "ZZ_B = 1"], False, only=["ENUM_E2", "LIBENUM"])
add("enumvalue:duplicate3", "enum", ["ZZ_A = 5", "ZZ_B = 5"], False, only=["ENUM_E"])
add("enumvalue:overflow:uint3", "enum", "ZZ_A = 8", False, only=["ENUM_E"])
add("enumvalue:max:uint3", "enum", "ZZ_A = 7", True, only=["ENUM_E"])
add("enumvalue:overflow:uint2", "enum", "ZZ_A = 4", False, only=["ENUM_E2", "LIBENUM"])
add("enumvalue:max:uint2", "enum", "ZZ_A = 3", True, only=["ENUM_E2", "LIBENUM"])
for w in (1, 8, 64):
    add("enumvalue:max:uint%d" % w, "top", ["enum ZEn : uint%d {" % w, "    ZEN_A = %d" % ((1 << w) - 1), "}"], True)
    add("enumvalue:overflow:uint%d" % w, "top", ["enum ZEn : uint%d {" % w, "    ZEN_A = %d" % (1 << w), "}"], False)
add("enumwidth:0", "top", ["enum ZEn : uint0 {", "    ZEN_A = 0", "}"], False)
add("enumwidth:65", "top", ["enum ZEn : uint65 {", "    ZEN_A = 0", "}"], False)
# --- duplicate names per scope
add("dupname:message/message", "top", ["message ZDup {", "}", "message ZDup {", "}"], False)
add("dupname:const/const", "top", ["const ZDUP = 1", "const ZDUP = 2"], False)
add("dupname:enum/message", "top", ["enum ZDup : uint1 {", "    ZD_A = 0", "}", "message ZDup {", "}"], False)
add("dupname:alias/const", "top", ["type ZDup = uint3", "const ZDup = 2"], False)
add("dupname:field/field", "msg", ["bool zz = 201", "uint3 zz = 202"], False)
add("dupname:field/nested", "msg", ["message zz {", "}", "bool zz = 201"], False)
add("dupname:member/member", "enum", ["ZZ_A = 2", "ZZ_A = 3"], False, only=["ENUM_E", "ENUM_E2", "LIBENUM"])
add("dupname:import-name/def", "top", ["message lib {", "}"], False, only=["TOP0", "TOP1", "TOP2"])
add("dupname:import-as-name/def", "top", ["const al = 1"], False, only=["TOP0", "TOP1", "TOP2"])
add("dupname:shadow-outer-ok", "msg", ["message Later {", "}"], True, only=["MSG_M0", "MSG_N", "MSG_O"])
# --- message size
add("size:65535", "top", ["message ZBig {", "    bool[65535] zz = 1", "}"], True)
add("size:65536", "top", ["message ZBig {", "    bool[65535] zz = 1", "    bool zy = 2", "}"], False)
add("size:ext-65535", "top", ["message ZBig' {", "    bool[65519] zz = 1", "}"], True)
add("size:ext-65536", "top", ["message ZBig' {", "    bool[65520] zz = 1", "}"], False)
add("size:nested-65536", "msg", ["message ZBig {", "    bool[65535] zz = 1", "    bool zy = 2", "}"], False)
add("size:by-field-65536", "top", ["message ZBig {", "    bool[65535] zz = 1", "}", "message ZUse {", "    ZBig b = 1", "    bool c = 2", "}"], False)
add("maxbytes:equal", "top", ["message ZMax {", "    option max_bytes = 2", "    uint9 zz = 1", "}"], True)
add("maxbytes:less", "top", ["message ZMax {", "    option max_bytes = 1", "    uint9 zz = 1", "}"], False)
add("maxbytes:less-by-bits", "top", ["message ZMax {", "    option max_bytes = 2", "    uint16 zz = 1", "    bool zy = 2", "}"], False)
add("maxbytes:zero-means-unlimited", "top", ["message ZMax {", "    option max_bytes = 0", "    uint64 zz = 1", "}"], True)
add("maxbytes:const", "top", ["message ZMax {", "    option max_bytes = KONST", "    uint32 zz = 1", "}"], False, only=["TOP1", "TOP2"])
# --- aliases name only unnamed types
add("alias:of-message", "top", "type ZA = Later", False, only=["TOP2"])
add("alias:of-enum", "top", "type ZA = E", False, only=["TOP1", "TOP2"])
add("alias:of-alias", "top", "type ZA = A1", False, only=["TOP1", "TOP2"])
add("alias:of-array", "top", "type ZA = uint5[3]", True)
add("alias:of-ext-array", "top", "type ZA = bool[4]'", True)
add("alias:of-imported-message", "top", "type ZA = lib.LM", False, only=["TOP0", "TOP1", "TOP2"])
# --- declarations in scopes that forbid them
add("scope:alias-in-message", "msg", "type ZT = uint3", False)
add("scope:const-in-message", "msg", "const ZC = 1", False)
add("scope:import-in-message", "msg", 'import "cyc2.bitproto"', False, only=["MSG_M0", "MSG_M1", "MSG_N", "MSG_O"])
add("scope:proto-in-message", "msg", "proto zq", False)
add("scope:alias-in-enum", "enum", "type ZT = uint3", False)
add("scope:const-in-enum", "enum", "const ZC = 1", False)
add("scope:proto-in-enum", "enum", "proto zq", False)
add("scope:import-in-enum", "enum", 'import "cyc2.bitproto"', False, only=["ENUM_E", "ENUM_E2"])
add("scope:option-in-enum", "enum", "option max_bytes = 1", False)
add("scope:enum-in-enum", "enum", ["enum ZIn : uint1 {", "    ZI_A = 0", "}"], False)
add("scope:message-in-enum", "enum", ["message ZIn {", "}"], False)
add("scope:field-in-enum", "enum", "bool zz = 9", False)
add("scope:field-at-top", "top", "bool zz = 1", False)
add("scope:member-at-top", "top", "ZZ_A = 1", False)
add("scope:nested-message-ok", "msg", ["message ZIn {", "    bool q = 1", "}"], True)
add("scope:nested-enum-ok", "msg", ["enum ZIn : uint1 {", "    ZI_A = 0", "}"], True)
# --- options
add("option:unknown-file", "top", "option nope = 1", False)
add("option:unknown-message", "msg", "option nope = 1", False)
add("option:wrong-type-message", "msg", 'option max_bytes = "a"', False)
add("option:wrong-type-file", "top", "option c.name_prefix = 1", False)
add("option:bool-for-int", "msg", "option max_bytes = true", False)
add("option:bool-const-for-int", "msg", "option max_bytes = FLAG", False, only=["t.bitproto"])
add("option:string-const-for-int", "msg", "option max_bytes = STR", False, only=["t.bitproto"])
add("option:int-const-for-string", "top", "option c.name_prefix = KONST", False, only=["TOP1", "TOP2"])
add("option:string-const-ok", "top", "option c.name_prefix = STR", True, only=["TOP1", "TOP2"])
add("option:alignment-const-ok", "top", "option c.struct_packing_alignment = KONST", True, only=["TOP1", "TOP2"])
add("option:message-option-at-file", "top", "option max_bytes = 3", False)
add("option:file-option-in-message", "msg", 'option c.name_prefix = "x"', False)
add("option:known-file", "top", 'option c.name_prefix = "zz_"', True)
add("option:known-file-int", "top", "option c.struct_packing_alignment = 1", True)
add("option:known-message", "msg", "option max_bytes = 100", True)
# --- type references
add("typeref:undefined", "msg", "ZNope zz = 201", False)
add("typeref:defined-later", "msg", "Later zz = 201", False, only=["MSG_M0", "MSG_M1", "MSG_M2", "MSG_N", "MSG_O"])
add("typeref:enclosing-message", "msg", "M zz = 201", False, only=["MSG_M0", "MSG_M1", "MSG_M2", "MSG_N", "MSG_O"])
add("typeref:a-constant", "msg", "KONST zz = 201", False, only=["MSG_M0", "MSG_M1", "MSG_M2", "MSG_N", "MSG_O"])
add("typeref:wrong-dotted-path", "msg", "lib.ZNope zz = 201", False, only=["MSG_M0", "MSG_M1", "MSG_M2", "MSG_N", "MSG_O"])
add("typeref:wrong-dotted-path2", "msg", "E.ZNope zz = 201", False, only=["MSG_M0", "MSG_M1", "MSG_M2", "MSG_N", "MSG_O"])
add("typeref:earlier-enum-ok", "msg", "E zz = 201", True, only=["MSG_M0", "MSG_M1", "MSG_M2", "MSG_N", "MSG_O"])
add("typeref:imported-ok", "msg", "lib.LM zz = 201", True, only=["MSG_M0", "MSG_M1", "MSG_M2", "MSG_N", "MSG_O"])
add("typeref:imported-as-ok", "msg", "al.AM[2] zz = 201", True, only=["MSG_M0", "MSG_M1", "MSG_M2", "MSG_N", "MSG_O"])
add("typeref:alias-array-ok", "msg", "A1[3]' zz = 201", True, only=["MSG_M0", "MSG_M1", "MSG_M2", "MSG_N", "MSG_O"])
add("typeref:array-of-undefined", "msg", "ZNope[2] zz = 201", False)
# an imported file sees only its own names - not those the importer declared before the import statement
add("typeref:importer-name-from-imported-file", "msg", "Early zz = 201", False, only=["LIBMSG"])
add("typeref:importer-name-ok-in-importer", "msg", "Early zz = 201", True, only=["MSG_M0", "MSG_O"])
add("cap:importer-constant-from-imported-file", "msg", "bool[EARLY] zz = 201", False, only=["LIBMSG"])
add("constref:importer-constant-from-imported-file", "top", "const ZX = EARLY + 1", False, only=["LIBTOP"])
add("alias:importer-name-from-imported-file", "top", "type ZA = Early[2]", False, only=["LIBTOP"])
add("typeref:array-of-array-alias-ok", "top", ["type ZRow = uint3[2]", "message ZGrid {", "    ZRow[2] g = 1", "}"], True)
# --- identifiers that merely START with a type name or keyword are ordinary identifiers; a type name glued to an identifier is not a field
add("ident:type-prefixed-names-ok", "top", ["type int16_t = int16", "message ZPre {", "    uint8 uint8_len = 1", "    int16_t int32x = 2", "    bool boolean = 3", "    byte bytes = 4",
                                            "    uint3 message_id = 5", "    uint3 enumx = 6", "    uint3 constant = 7", "    uint3 typed = 8", "    uint3 imported = 9", "    uint3 option_a = 10", "}"], True)
add("ident:type-glued-to-name", "msg", "uint8x = 201", False)
add("ident:int-type-glued-to-name", "msg", "int16y = 201", False)
add("ident:bool-glued-to-name", "msg", "boolz = 201", False)
# --- constant references
add("constref:undefined", "top", "const ZX = ZNOPE", False)
add("constref:defined-later", "top", "const ZX = LATER", False, only=["TOP0", "TOP1"])
add("constref:a-type", "top", "const ZX = E", False, only=["TOP1", "TOP2"])
add("constref:string-in-arithmetic", "top", "const ZX = STR + 1", False, only=["TOP1", "TOP2"])
add("constref:earlier-ok", "top", "const ZX = KONST * 2 + 1", True, only=["TOP1", "TOP2"])
add("constref:bool-in-arithmetic", "top", "const ZX = FLAG + 1", False, only=["TOP1", "TOP2"])
add("constref:bool-alias-ok", "top", "const ZX = FLAG", True, only=["TOP1", "TOP2"])
add("constref:string-alias-ok", "top", "const ZX = STR", True, only=["TOP1", "TOP2"])
add("constref:imported-ok", "top", "const ZX = lib.LK + al.AK", True, only=["TOP0", "TOP1", "TOP2"])
add("constref:option-undefined", "msg", "option max_bytes = ZNOPE", False)
# --- imports
add("import:itself", "top", 'import "t.bitproto"', False, only=["TOP0", "TOP1", "TOP2"])
add("import:cycle", "top", 'import "cyc.bitproto"', False, only=["TOP0", "TOP1", "TOP2"])
add("import:duplicate", "top", 'import "lib.bitproto"', False, only=["TOP0", "TOP1", "TOP2"])
add("import:duplicate-as", "top", 'import zl "lib.bitproto"', False, only=["TOP0", "TOP1", "TOP2"])
# the same FILE under another spelling of its path is still the same file (identity, not text)
add("import:cycle-dot-spelling", "top", 'import "./cyc.bitproto"', False, only=["TOP0", "TOP1", "TOP2"])
add("import:cycle-through-subdirectory", "top", 'import "sub/cyc2.bitproto"', False, only=["TOP0", "TOP1", "TOP2"])
add("import:duplicate-dot-spelling-as", "top", 'import zl "./lib.bitproto"', False, only=["TOP0", "TOP1", "TOP2"])
add("import:duplicate-subdirectory-spelling-as", "top", 'import zl "sub/../lib.bitproto"', False, only=["TOP0", "TOP1", "TOP2"])
add("import:subdirectory-ok", "top", ['import "sub/inner.bitproto"', "const ZX = inner.IK + 1"], True, only=["TOP0", "TOP1", "TOP2"])
add("import:same-name-twice", "top", 'import al "cyc2.bitproto"', False, only=["TOP0"])
add("import:third-ok", "top", 'import "cyc2.bitproto"', True, only=["TOP0", "TOP1", "TOP2"])

SKELETON["cyc2.bitproto"] = "proto cyc2\n\nconst CK = 1\n"

INDENT = "    "
SHIFTS_QUICK = (0,)
SHIFTS_THOROUGH = (0, 1, 3)


def cases(tier):
    out = []
    shifts = SHIFTS_QUICK if tier == "quick" else SHIFTS_THOROUGH
    out.append(dict(tag="skeleton", kind=None, lines=[], accept=True, slot=None, shift=0, family="skeleton"))
    for v in V:
        for fname, slot, depth in SLOTS[v["kind"]]:
            if v["only"] and slot not in v["only"] and fname not in v["only"]:
                continue
            for sh in shifts:
                out.append(dict(v, slot=(fname, slot, depth), shift=sh))
    return out


def materialise(case):
    """Returns ({file: text}, target file, (first line, last line) of the snippet)."""
    files = {}
    span = None
    target = None
    for fname, text in SKELETON.items():
        lines_out = []
        for ln in text.split("\n"):
            if ln.startswith("@") and ln.endswith("@"):
                name = ln.strip("@")
                if case["slot"] and case["slot"][0] == fname and case["slot"][1] == name:
                    depth = case["slot"][2]
                    for _ in range(case["shift"]):
                        lines_out.append("" if (len(lines_out) % 2) else INDENT * depth + "// shifted")
                    first = len(lines_out) + 1
                    # nested snippet bodies keep their relative indentation
                    for sl in case["lines"]:
                        lines_out.append(INDENT * depth + sl)
                    span = (first, len(lines_out))
                    target = fname
                continue
            lines_out.append(ln)
        files[fname] = "\n".join(lines_out)
    return files, target, span


def run_unit(unit):
    _, tier, lo, hi = unit
    bind.bind()
    from bitproto.errors import ParserError
    from bitproto.parser import parse
    from bitproto.renderer import render
    cs = cases(tier)[lo:hi]
    out = UnitOut()
    with Scratch() as sc:
        for k, case in enumerate(cs):
            d = sc.sub("k%d" % k)
            files, target, span = materialise(case)
            for fn, tx in files.items():
                os.makedirs(os.path.dirname(os.path.join(d, fn)), exist_ok=True)
                with open(os.path.join(d, fn), "w") as f:
                    f.write(tx)
            out.count("states")
            out.count("transitions")
            out.cls("family:" + case["family"])
            out.cls("accept" if case["accept"] else "reject")
            if case["slot"]:
                out.cls("slot:" + case["slot"][1])
            main = os.path.join(d, "t.bitproto")
            err = None
            proto = None
            try:
                with watchdog(30), quiet_stderr():
                    proto = parse(main)
            except BaseException as e:  # noqa
                err = e
            out.count("evaluations")
            out.count("traces")
            if not case["accept"]:
                out.count("nontrivial")
            desc = "%s at %s shift=%d" % (case["tag"], case["slot"][:2] if case["slot"] else None, case["shift"])
            out.outcome(case["tag"], case["slot"], type(err).__name__ if err else "accepted")
            feats = ["family:" + case["family"], "tag:" + case["tag"]] + (["slot:" + case["slot"][1]] if case["slot"] else [])

            def viol(symptom, site, detail=""):
                out.violation(check="acceptance", symptom=symptom, site=site, features=feats, sig_features=[case["tag"]],
                              desc=desc + " :: " + detail[:300], detail=detail, schema=files, replay=dict(kind="c08", case=case))

            if case["accept"]:
                if err is not None:
                    viol("valid_schema_rejected", repo_site(err) if not isinstance(err, ParserError) else "parser", "%s: %s" % (type(err).__name__, str(err)[:300]))
                    continue
                # an accepted schema must also render (no output-side surprises): owned by C09/C10, only counted here
                continue
            if err is None:
                viol("invalid_schema_accepted", "compiler/bitproto", "expected a rejection for %s" % case["tag"])
                continue
            if not isinstance(err, ParserError):
                viol("not_a_parser_error:" + type(err).__name__, repo_site(err), exc_summary(err))
                continue
            # file and line
            allowed_files = {target}
            lo_, hi_ = span
            ef = os.path.basename(err.filepath or "")
            el = err.lineno
            if case["tag"].startswith("import:cycle"):
                ok = (ef == target and lo_ <= el <= hi_) or (ef in ("cyc.bitproto", "cyc2.bitproto") and el == 3)
            else:
                ok = ef in allowed_files and lo_ <= el <= hi_
            if not ok:
                viol("wrong_location", "errors:%s" % type(err).__name__, "%s cites %s:L%s, the offending construct is %s lines %d..%d; message: %s" % (
                    type(err).__name__, ef or "<none>", el, target, lo_, hi_, str(err)[:200]))
            if k % 9 == 0:
                out.sample(dict(case=case["tag"], slot=case["slot"], error=type(err).__name__, cites="%s:L%s" % (ef, el)))
    return out.result()


def run_cli(unit):
    """Real subprocess runs: exit status != 0, diagnostic with file:L<n> on stderr, no output file."""
    _, tier = unit
    out = UnitOut()
    picks = [c for c in cases(tier) if c["shift"] == 0]
    # one case per family, both verdicts
    seen, sel = set(), []
    for c in picks:
        key = (c["family"], c["accept"])
        if key not in seen:
            seen.add(key)
            sel.append(c)
    env = dict(os.environ, PYTHONPATH=bind.COMPILER_DIR)
    with Scratch() as sc:
        for k, case in enumerate(sel):
            for lang in ("c", "py", "go"):
                d = sc.sub("c%d%s" % (k, lang))
                files, target, span = materialise(case)
                for fn, tx in files.items():
                    os.makedirs(os.path.dirname(os.path.join(d, fn)), exist_ok=True)
                    with open(os.path.join(d, fn), "w") as f:
                        f.write(tx)
                r = subprocess.run([sys.executable, "-m", "bitproto._main", lang, "t.bitproto"], cwd=d, capture_output=True, text=True, env=env, timeout=120)
                produced = [f for f in os.listdir(d) if "_bp." in f]
                out.count("states")
                out.count("transitions")
                out.count("evaluations")
                out.count("traces")
                out.count("cli_runs")
                desc = "CLI %s %s at %s" % (lang, case["tag"], case["slot"][:2] if case["slot"] else None)
                feats = ["family:" + case["family"], "tag:" + case["tag"], "cli"]
                if case["accept"]:
                    if r.returncode != 0 or not produced:
                        out.violation(check="cli", symptom="valid_schema_failed", site="_main", features=feats, sig_features=[case["tag"], lang],
                                      desc=desc + " :: exit %d, files %s, stderr %s" % (r.returncode, produced, r.stderr[-300:]), schema=files)
                else:
                    out.count("nontrivial")
                    cite = "%s:L" % target
                    if r.returncode == 0 or produced or cite not in r.stderr or "Traceback" in r.stderr:
                        out.violation(check="cli", symptom="bad_rejection", site="_main", features=feats, sig_features=[case["tag"], lang],
                                      desc=desc + " :: exit %d, files written %s, stderr cites file:L? %s, stderr: %s" % (
                                          r.returncode, produced, cite in r.stderr, r.stderr[-300:]), schema=files)
    out.sample(dict(kind="cli", cases=len(sel)))
    return out.result()


def dispatch(unit):
    if unit[0] == "CLI":
        return run_cli(unit)
    return run_unit(unit)


def units(tier):
    n = len(cases(tier))
    us = [("P", tier, i, min(n, i + 40)) for i in range(0, n, 40)]
    us.append(("CLI", tier))
    return us


def main(pid, tier):
    t0 = time.time()
    acc = Acc()
    acc.merge(run_units(units(tier), dispatch, maxtasks=20))
    c = acc.counters
    g = []
    fams = sorted(set(v["family"] for v in V))
    for f in fams:
        if acc.classes.get("family:" + f, 0) < 1:
            g.append("family %s not exercised" % f)
    if acc.classes.get("accept", 0) < 30 or acc.classes.get("reject", 0) < 100:
        g.append("too few accept/reject cases: %s/%s" % (acc.classes.get("accept"), acc.classes.get("reject")))
    cov = dict(states=c["states"], transitions=c["transitions"], traces_validated_against_impl=c["traces"], evaluations=c["evaluations"],
               distinct_nontrivial=c["nontrivial"], catalogue_entries=len(V), families=fams, cli_subprocess_runs=c["cli_runs"],
               rule="skeleton x one catalogue snippet (violation or boundary-valid construct, both sides of every numeric limit) x every slot of the "
                    "snippet's scope kind (top level first/middle/last, message depth 1/2/3, enum bodies, imported file) x line shifts %s; oracle: "
                    "accept iff the snippet is valid; a rejection must be a bitproto ParserError whose filepath is the file holding the snippet and "
                    "whose lineno lies on the snippet's lines; per family real CLI subprocesses check exit status, stderr file:L<n> and absence of "
                    "output files; non-trivial = a violating snippet" % (list(SHIFTS_QUICK if tier == "quick" else SHIFTS_THOROUGH),),
               exhaustive=True, bound="single violations; catalogue of %d snippets; %d slots" % (len(V), sum(len(v) for v in SLOTS.values())))
    return finish(PID, tier, acc, cov, t0, assumptions=["the expected verdict of each snippet is part of the catalogue (by construction), not computed by a second rule checker"], guards=g)


def replay(payload):
    bind.bind()
    r = payload["replay"]
    case = r["case"]
    if case.get("slot"):
        case["slot"] = tuple(case["slot"])
    import bpmc.checks.c08 as me
    saved = me.cases
    me.cases = lambda tier: [case]
    try:
        res = run_unit(("P", "quick", 0, 1))
    finally:
        me.cases = saved
    if res.get("violations"):
        print("REPRODUCED: %s" % res["violations"][0].get("desc"))
        return 1
    print("NOT REPRODUCED")
    return 0
