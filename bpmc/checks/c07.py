"""C07: encoding touches exactly its bytes, and each field exactly its bits.

(a) constants: C macro, Go const + Size(), Python BYTES_LENGTH all equal ceil(N/8)
(b) bounds: every ENC/DEC inside guard pages (both ends) and under ASan+UBSan
(c) containment: Python out-of-range integers; C storage sweeps (standard and -O)
"""
import re
import time
from typing import List

from .. import bind, cback, ref, scope, sweeps, values
from ..evidence import finish, pack, unpack
from ..explore import Acc, UnitOut, exc_summary, repo_site, run_units
from ..pyback import Scratch, compile_py, render_all_files, set_leaf, set_vec, watchdog
from . import copt, pycodec

BATCH = 24


def _viol(out, pid, check, symptom, site, c, lay, desc, detail="", config=None, extra=None):
    out.violation(check=check, symptom=symptom, site=site, features=pycodec.case_features(c, lay) + ["config:%s" % config],
                  sig_features=[config], desc="%s :: [%s] %s" % (c.desc, config, desc), detail=detail,
                  schema=pycodec.schema_text(c), replay=dict(kind="c07", pid=pid, case=pack(c), config=config, extra=extra))


def run_big(unit):
    pid, tier = unit[1], unit[2]
    out = UnitOut()
    cases = scope.big_space()
    with Scratch() as sc:
        for k, c in enumerate(cases):
            out.count("states")
            out.count("transitions")
            out.count("traces")
            out.cls("big_message")
            try:
                std = cback.CBatch([c], sc.sub("big%d" % k))
            except Exception as e:
                _viol(out, pid, "pipeline", type(e).__name__, repo_site(e), c, [], "big message failed to render as C", exc_summary(e), config="render")
                continue
            constants([c], sc, std, out, pid, "big%d" % k)
            constants_all_messages([c], sc, std, out, pid, "big%d" % k)
    return out.result()


def run_unit(unit):
    if unit[0] == "BIG":
        return run_big(unit)
    pid, tier, idxs = unit
    sp = pycodec.c_space(tier)
    cases = [sp[i] for i in idxs]
    out = UnitOut()
    # quick: the sanitizer build (the slowest compile) on every second batch; thorough: on all
    # thorough: on every second batch as well, and on every batch that holds a state of the quick space
    with_asan = (idxs[0] // BATCH) % 2 == 0 or (tier != "quick" and any(copt.full_sweeps_for(c, tier) for c in cases))
    with Scratch() as sc:
        run_batch(pid, tier, cases, sc, out, with_asan=with_asan)
    return out.result()


PY_LEN = re.compile(r"class (\w+)\(bp\.MessageBase\):\n\s+# Number of bytes to serialize class \w+\n\s+BYTES_LENGTH: ClassVar\[int\] = (\d+)")
GO_CONST = re.compile(r"// Number of bytes to serialize struct (\w+)\nconst (BYTES_LENGTH_\w+) uint32 = (\d+)")
GO_SIZE = re.compile(r"func \(m \*(\w+)\) Size\(\) uint32 \{ return (\d+) \}")


def constants(cases, sc, std, out, pid, tag):
    """(a) the byte-length constant in the three languages."""
    import os
    from ..pyback import parse_file, render_strings
    d = std.dir
    main = os.path.join(d, std.batch.filename)
    try:
        p = parse_file(main)
        py = "\n".join(render_strings(p, "py").values())
        go = "\n".join(render_strings(p, "go").values())
    except Exception as e:
        for c in cases[:1]:
            _viol(out, pid, "pipeline", type(e).__name__, repo_site(e), c, ref.layout(c.msg), "py/go rendering raised", exc_summary(e), config="render")
        return
    pyl = {n: int(v) for n, v in PY_LEN.findall(py)}
    gol = {n: int(v) for n, m, v in GO_CONST.findall(go)}
    gos = {n: int(v) for n, v in GO_SIZE.findall(go)}
    for c in cases:
        lay = ref.layout(c.msg)
        want = ref.nbytes(c.msg)
        got = dict(c=std.macros.get(c.msg.name, (None, None))[1], python=pyl.get(c.msg.name), go_const=gol.get(c.msg.name),
                   go_size=gos.get(c.msg.name))
        out.count("constants_checked", 4)
        out.count("evaluations", 4)
        for lang, v in got.items():
            if v != want:
                _viol(out, pid, "constants", "mismatch", "BYTES_LENGTH:" + lang, c, lay,
                      "byte length constants %r, expected %d" % (got, want), config=lang)


def constants_all_messages(cases, sc, std, out, pid, tag):
    """(a') EVERY message of the compilation - nested ones and those in imported files too - gets the same
    byte length in the three languages: name-agnostic comparison of the multisets of constants with the
    reference sizes of all message definitions."""
    import os
    from ..ir import MessageDef, walk_defs
    from ..pyback import render_all_files
    want = []
    for f in std.batch.all_files():
        def rec(items):
            for it in items:
                if isinstance(it, MessageDef):
                    want.append(ref.nbytes(it))
                    rec(it.items)
        rec(f.items)
    want.sort()
    main = os.path.join(std.dir, std.batch.filename)
    try:
        py, _ = render_all_files(main, "py", sc.sub("allpy" + tag))
        go, _ = render_all_files(main, "go", sc.sub("allgo" + tag))
    except Exception:
        return  # reported by constants()
    pyt, got = "\n".join(py.values()), "\n".join(go.values())
    sets = dict(c=sorted(v for _, v in std.macros.values()), python=sorted(int(v) for _, v in PY_LEN.findall(pyt)),
                go_const=sorted(int(v) for _, _, v in GO_CONST.findall(got)), go_size=sorted(int(v) for _, v in GO_SIZE.findall(got)))
    out.count("constants_checked", 4 * len(want))
    for lang, vals in sets.items():
        if vals != want:
            c = cases[0]
            _viol(out, pid, "constants", "mismatch_some_message", "BYTES_LENGTH:" + lang, c, ref.layout(c.msg),
                  "byte length constants of all %d messages of the batch (nested and imported included), sorted: %s has %r, expected %r" % (len(want), lang, vals, want), config=lang)


def run_batch(pid, tier, cases, sc, out, tag="0", with_asan=True):
    try:
        std = cback.CBatch(cases, sc.sub("std" + tag))
        std.build("std-O2")
        if with_asan:
            std.build("asan")
    except Exception as e:
        if len(cases) > 1:
            for k, c in enumerate(cases):
                run_batch(pid, tier, [c], sc, out, "%s_%d" % (tag, k), with_asan)
            return
        c = cases[0]
        out.count("states")
        site = repo_site(e) if not isinstance(e, cback.CBuildError) else "gcc:" + e.stage.split(":")[0]
        _viol(out, pid, "pipeline", type(e).__name__, site, c, ref.layout(c.msg), "schema failed to render/compile as C",
              exc_summary(e) if not isinstance(e, cback.CBuildError) else e.msg, config="build")
        return
    constants(cases, sc, std, out, pid, tag)
    constants_all_messages(cases, sc, std, out, pid, tag)
    trad = [k for k, c in enumerate(cases) if copt.is_traditional(c)]
    opts = {}
    if trad:
        tcases = [cases[k] for k in trad]
        try:
            for name, endian in (("opt-little", "little"), ("opt-big", "big")):
                cb = cback.CBatch(tcases, sc.sub("opt_%s%s" % (endian, tag)), optimize=True, endian=endian)
                cb.build("std-O2")
                opts[name] = cb
        except Exception as e:
            c = tcases[0]
            _viol(out, pid, "pipeline", type(e).__name__, "opt-build", c, ref.layout(c.msg), "-O build failed for batch", str(e)[-1500:], config="build")
            opts = {}
    # Python module (containment of out-of-range integers)
    try:
        ms, _, _ = compile_py(scope.make_batch(cases), sc.sub("py" + tag))
    except Exception:
        ms = None
    try:
        for variant in (("std-O2", "asan") if with_asan else ("std-O2",)):
            h = std.harness(variant)
            try:
                for r, c in enumerate(cases):
                    try:
                        _run_c_case(pid, tier, c, r, h, variant, out, sweep=(variant == "std-O2"), count_state=(variant == "std-O2"))
                    except cback.HarnessFault as e:
                        _viol(out, pid, "bounds", "fault", "lib/c/bitproto.c", c, ref.layout(c.msg),
                              "harness died: %s" % e, e.stderr, config=variant)
                        h.close()
                        h = std.harness(variant)
            finally:
                h.close()
        for name, cb in opts.items():
            h = cb.harness("std-O2")
            try:
                for r, c in enumerate(cb.cases):
                    try:
                        _run_c_case(pid, tier, c, r, h, name, out, sweep=True, count_state=False)
                    except cback.HarnessFault as e:
                        _viol(out, pid, "bounds", "fault", "generated -O code", c, ref.layout(c.msg), "harness died: %s" % e, e.stderr, config=name)
                        h.close()
                        h = cb.harness("std-O2")
            finally:
                h.close()
        if ms is not None:
            for c in cases:
                _run_py_case(pid, tier, c, ms.module, out)
    finally:
        if ms is not None:
            ms.unload()


def _run_c_case(pid, tier, c, r, h, variant, out, sweep, count_state):
    lay = ref.layout(c.msg)
    leaves = [l for l in lay if l.is_value]
    row = h.rows[r]
    if count_state:
        out.count("states")
    mode, vecs = values.value_space(leaves, pycodec.vmax(tier))
    inputs = [(h.image(r, leaves, v), ("value", v)) for v in vecs]
    if sweep and row["size"] <= copt.sweep_limit(tier) and copt.full_sweeps_for(c, tier):
        for img, li, p, b, bg in sweeps.storage_sweep(row, leaves):
            inputs.append((img, ("storage", li, p, b, bg)))
        out.cls("storage_swept:" + variant)
    elif variant == "asan":
        # under the sanitizers: every leaf's storage bytes at 0x00 / 0xFF / 0x80 / 0x7f
        for img, li, p, b, bg in sweeps.storage_sweep(row, leaves, byte_values=(0x00, 0xFF, 0x80, 0x7F)):
            inputs.append((img, ("storage", li, p, b, bg)))
    images = [i for i, _ in inputs]
    enc = h.encode_many(r, images)
    n = len(images)
    out.count("transitions", n)
    out.count("evaluations", n)
    out.count("traces", n)
    out.count("nontrivial", sum(1 for i, t in inputs if t[0] == "storage"))
    for (img, tagv), (flag, wire) in zip(inputs, enc):
        if tagv[0] == "value":
            out.outcome(variant, wire)
        exp = ref.encode(c.msg, sweeps.image_vec(row, leaves, img), lay)
        if wire != exp:
            li = tagv[1] if tagv[0] == "storage" else None
            what = "containment" if tagv[0] == "storage" else "encode"
            _viol(out, pid, what, "bits_outside_field_changed" if tagv[0] == "storage" else "wrong_bytes",
                  "encode:" + ("opt" if variant.startswith("opt") else "std"), c, lay,
                  "input %r image=%s wire=%s expected=%s (expected = every leaf reduced modulo 2^n)" % (tagv, img.hex(), wire.hex(), exp.hex()),
                  config=variant, extra=dict(image=img.hex()))
            break
        if flag:
            _viol(out, pid, "bounds", "flag%d" % flag, "encode", c, lay, "input %r harness flag %d" % (tagv, flag), config=variant)
            break
    # decode: exactly-sized buffers against the guard page, all value encodings + extremes
    wires = [ref.encode(c.msg, v, lay) for v in vecs]
    if not c_has_ext(lay):
        wires += [bytes([0xFF]) * row["nbytes"], bytes([0x55]) * row["nbytes"], bytes([0xAA]) * row["nbytes"]]
    dec = h.decode_many(r, wires)
    out.count("transitions", len(wires))
    out.count("evaluations", len(wires))
    out.count("traces", len(wires))
    for w, (flag, img) in zip(wires, dec):
        if flag:
            _viol(out, pid, "bounds", "flag%d" % flag, "decode", c, lay, "wire=%s harness flag %d" % (w.hex(), flag), config=variant)
            break
    if variant == "std-O2" and vecs:
        out.sample(dict(schema=pycodec.schema_text(c)["t.bitproto"][-250:], n_encode_inputs=len(images), n_decode_inputs=len(wires),
                        example=dict(image=images[-1].hex(), wire=enc[-1][1].hex())))


def c_has_ext(lay):
    return any(l.kind == "prefix" for l in lay)


def oor_values(l: ref.Leaf, v: int):
    n = l.width
    out = [v + (1 << n), v - (1 << n), v + (1 << 64), v + (3 << n)]
    if n < 64:
        out.append(v + (1 << 63) - ((1 << 63) % (1 << n)))
    if not l.signed:
        out.append(-1 if v == (1 << n) - 1 else v - (1 << n) * 5)
    return out


def _run_py_case(pid, tier, c, mod, out):
    lay = ref.layout(c.msg)
    leaves = [l for l in lay if l.is_value]
    if values.has_enum_without_members(leaves):
        return
    cls = getattr(mod, c.msg.name, None)
    if cls is None:
        return
    # backgrounds: zero, ones, alternating bits, and two in which every leaf holds a different value (k, k * 2654435761)
    base_vecs = values.basis(leaves)[:2] + values.basis(leaves)[-1:] + values.big_vectors(leaves)[2:4]
    if not copt.full_sweeps_for(c, tier):
        base_vecs = base_vecs[:1] + base_vecs[3:4]  # thorough, states beyond the quick space: zero and the all-different background
    for bv in base_vecs:
        for li, l in enumerate(leaves):
            if l.kind not in ("uint", "int", "byte", "bool"):
                continue  # enum leaves: an undeclared value is not "an integer field holding an out-of-range value"
            # a bool is a field of n = 1 bit: "the bits a field contributes are a function of that field's low n bits only"
            for ov in (oor_values(l, bv[li]) if l.kind != "bool" else [int(bv[li]) + d for d in (2, 4, 6, 254, 256, -2)]):
                exp = ref.encode(c.msg, bv, lay)  # ov == bv[li] modulo 2^n by construction
                if (ov - bv[li]) % (1 << l.width) != 0:
                    continue
                out.count("transitions")
                out.count("evaluations")
                out.count("py_oor")
                try:
                    with watchdog(10):
                        o = cls()
                        set_vec(o, leaves, bv)
                        set_leaf(o, l, ov, raw=True)  # a bool field is given the plain integer
                        got = bytes(o.encode())
                except Exception as e:
                    # bytearray fields reject values outside 0..255 at assignment time: nothing is encoded, nothing leaks
                    if isinstance(e, (ValueError, OverflowError)) and l.kind == "byte":
                        out.count("py_oor_rejected_at_assignment")
                        continue
                    _viol(out, pid, "containment_py", type(e).__name__, repo_site(e), c, lay,
                          "leaf %s overdriven to %d raised" % (l.path, ov), exc_summary(e), config="python")
                    break
                out.count("traces")
                out.count("nontrivial")
                if got != exp:
                    _viol(out, pid, "containment_py", "bits_outside_field_changed", "lib/py/bitprotolib/bp.py:encode", c, lay,
                          "leaf %s (width %d) overdriven to %d: bytes %s, with the leaf reduced modulo 2^n: %s" % (l.path, l.width, ov, got.hex(), exp.hex()),
                          config="python")
                    break


def units(pid, tier):
    sp = pycodec.c_space(tier)
    idx = list(range(len(sp)))
    if tier == "thorough":
        # every state of the quick space (everything) and every third of the additional thorough states (values, bounds, constants; lighter sweeps)
        idx = [i for i in idx if copt.full_sweeps_for(sp[i], tier) or i % 3 == 0]
    return [("BIG", pid, tier)] + [(pid, tier, idx[i:i + BATCH]) for i in range(0, len(idx), BATCH)]


def main(pid, tier):
    t0 = time.time()
    acc = Acc()
    acc.merge(run_units(units(pid, tier), run_unit, maxtasks=8))
    c = acc.counters
    g = []
    for need in ("storage_swept:std-O2", "storage_swept:opt-little", "storage_swept:opt-big"):
        if acc.classes.get(need, 0) < 1:
            g.append("no state of class " + need)
    if c["py_oor"] < 100:
        g.append("python out-of-range executions %d" % c["py_oor"])
    cov = dict(
        states=c["states"], transitions=c["transitions"], traces_validated_against_impl=c["traces"],
        evaluations=c["evaluations"], distinct_nontrivial=c["nontrivial"],
        constants_checked=c["constants_checked"], python_out_of_range_executions=c["py_oor"],
        python_out_of_range_rejected_at_assignment=c["py_oor_rejected_at_assignment"],
        configurations=["std-O2 (guard pages)", "asan (clang ASan+UBSan, alignment check excluded; every second batch, thorough: also every batch holding a quick-space state)", "opt-little", "opt-big", "python"],
        rule="states = SING u COMB u TREE; (a) 4 constants per state; (b) every ENC/DEC with struct and wire flush against PROT_NONE pages at "
             "both ends, and again under ASan+UBSan; (c) storage sweep (every byte value in every storage byte of every integer/enum leaf, two "
             "backgrounds) on standard mode and on -O little/big for traditional states, Python out-of-range integers v+k*2^n, negative for "
             "unsigned; non-trivial = an input with one leaf overdriven",
        exhaustive=True,
        bound="SING(%s) u COMB(2) u TREE(%d) u HOMONYMS; full sweeps for structs <= %d bytes (thorough: all states of the quick space with full sweeps + every third additional state)" % (tier, 4 if tier == "quick" else 5, copt.sweep_limit(tier)),
    )
    return finish(pid, tier, acc, cov, t0,
                  assumptions=["reference model bpmc/ref.py", "guard pages + ASan/UBSan observe every out-of-bounds access of the executed paths",
                               "Go constants are read from the generated text"], guards=g)


def replay(payload):
    bind.bind()
    r = payload["replay"]
    c = unpack(r["case"])
    out = UnitOut()
    with Scratch() as sc:
        run_batch(r["pid"], "quick", [c], sc, out)
    if out.violations:
        print("REPRODUCED: %s" % out.violations[0].get("desc"))
        return 1
    print("NOT REPRODUCED")
    return 0
