"""C17: -O and -F restrict what is generated without altering it."""
import io
import itertools
import os
import re
import subprocess
import sys
import time

from .. import bind
from ..evidence import finish
from ..explore import Acc, UnitOut, exc_summary, repo_site, run_units
from ..pyback import Scratch

PID = "C17"

MARKERS = ["none", "message", "nested_message", "array_field", "alias_array", "imported", "imported_by_imported", "imported_alias_array",
           "imported_unused_definition"]
NAMES = ["Inner", "Outer", "Last", "Nope"]


def schema(marker):
    q = lambda m: "'" if marker == m else ""
    files = {}
    files["lib2.bitproto"] = "proto lib2\n\nmessage L2%s {\n    bool w = 1\n}\n" % q("imported_by_imported")
    files["lib.bitproto"] = ("proto lib\n\nimport \"lib2.bitproto\"\n\ntype LA = bool[2]%s\n\nmessage Unused%s {\n    bool u = 1\n}\n\n"
                             "message LM%s {\n    bool z = 1\n    lib2.L2 l = 2\n    LA la = 3\n}\n" % (q("imported_alias_array"), q("imported_unused_definition"), q("imported")))
    files["t.bitproto"] = """proto t

import "lib.bitproto"

type Arr = uint3[2]%s

enum Kind : uint2 {
    KIND_A = 0
    KIND_B = 1
}

const LIMIT = 3

message Inner {
    enum Mode : uint3 {
        MODE_A = 0
        MODE_B = 5
    }
    uint3 a = 1
    int5 s = 2
    Mode mode = 3
}

message Outer {
    message Inner%s {
        bool b = 1
        Kind k = 2
    }
    enum Mode : uint12 {
        MODE_Z = 0
        MODE_BIG = 3000
    }
    Inner i = 1
    uint5[2]%s arr = 2
    Arr al = 3
    Mode mode = 4
    Mode[2] modes = 5
}

message Last%s {
    Outer o = 1
    lib.LM m = 2
    Inner top = 3
}
""" % (q("alias_array"), q("nested_message"), q("array_field"), q("message"))
    return files


def configs(tier):
    fsets = [None] + [list(c) for k in range(1, 5) for c in itertools.combinations(NAMES, k)]
    out = []
    for marker in MARKERS:
        for lang in ("c", "go", "py"):
            for opt in (False, True):
                for F in fsets:
                    endians = ("both", "little", "big") if (lang == "c" and opt and (tier == "thorough" or F in (None, ["Inner"], ["Outer", "Last"]))) else ("both",)
                    for endian in endians:
                        for quiet in ((False, True) if (F is None or tier == "thorough") else (True,)):
                            out.append(dict(marker=marker, lang=lang, opt=opt, F=F, endian=endian, quiet=quiet))
    return out


class Fatal(Exception):
    def __init__(self, msg, code):
        super().__init__(msg)
        self.msg = msg
        self.code = code


def run_main(d, cfg):
    """In-process bitproto._main.main with fatal() replaced (DESIGN F3)."""
    import bitproto._main as M

    def fake_fatal(s="", code=1):
        raise Fatal(s, code)

    saved = M.fatal
    M.fatal = fake_fatal
    old_err = sys.stderr
    sys.stderr = io.StringIO()
    outdir = os.path.join(d, "out")
    os.makedirs(outdir, exist_ok=True)
    for f in os.listdir(outdir):
        os.remove(os.path.join(outdir, f))
    status, msg = 0, ""
    try:
        M.main(os.path.join(d, "t.bitproto"), lang=cfg["lang"], outdir=outdir, disable_linter=cfg["quiet"], check=False,
               enable_optimize=cfg["opt"], filter_messages=cfg["F"], endian=cfg["endian"])
    except Fatal as e:
        status, msg = e.code or 1, e.msg
    finally:
        err = sys.stderr.getvalue()
        sys.stderr = old_err
        M.fatal = saved
    files = {f: open(os.path.join(outdir, f)).read() for f in sorted(os.listdir(outdir))}
    return status, msg + err, files


C_FUNC = re.compile(r"^int (Encode|Decode)(\w+)\(struct \w+ \*m, unsigned char \*s\) \{\n.*?^\}\n", re.M | re.S)
C_DECL = re.compile(r"^(?:// (?:Encode|Decode) struct \w+ (?:to|from) given buffer s\.\n)?int (Encode|Decode)(\w+)\(struct \w+ \*m, unsigned char \*s\);\n", re.M)
GO_FUNC = re.compile(r"^(?:// Encode struct \w+ to bytes buffer\.\n)?func \(m \*(\w+)\) (Encode\(\) \[\]byte|Decode\(s \[\]byte\)) \{\n.*?^\}\n", re.M | re.S)

C_NAME = {"Inner": ["Inner", "OuterInner"], "Outer": ["Outer"], "Last": ["Last"]}
GO_NAME = C_NAME


def expected_refusal(cfg):
    if cfg["opt"] and cfg["marker"] != "none":
        return "extensible"
    if cfg["opt"] and cfg["lang"] == "py":
        return "language"
    if cfg["F"] and not cfg["opt"]:
        return "filter-without-O"
    return None


def strip_funcs(lang, name, text):
    text = text.rstrip("\n") + "\n"
    if lang == "c":
        if name.endswith(".h"):
            text = C_DECL.sub("", text)
        else:
            text = C_FUNC.sub("", text)
    else:
        text = GO_FUNC.sub("", text)
    return re.sub(r"\n{2,}", "\n\n", text).rstrip("\n")


def funcs(lang, name, text):
    text = text.rstrip("\n") + "\n"
    out = {}
    if lang == "c":
        rx = C_DECL if name.endswith(".h") else C_FUNC
        for m in rx.finditer(text):
            out[(m.group(1), m.group(2))] = m.group(0)
    else:
        for m in GO_FUNC.finditer(text):
            out[(m.group(2).split("(")[0], m.group(1))] = m.group(0)
    return out


def run_unit(unit):
    _, tier, lo, hi = unit
    bind.bind()
    cfgs = configs(tier)[lo:hi]
    out = UnitOut()
    golden = {}
    with Scratch() as sc:
        dirs = {}
        for m in MARKERS:
            d = sc.sub(m)
            for fn, tx in schema(m).items():
                with open(os.path.join(d, fn), "w") as f:
                    f.write(tx)
            dirs[m] = d
        for cfg in cfgs:
            d = dirs[cfg["marker"]]
            out.count("states")
            out.count("transitions")
            out.count("evaluations")
            out.count("traces")
            try:
                status, msg, files = run_main(d, cfg)
            except BaseException as e:  # noqa
                out.violation(check="cli", symptom=type(e).__name__, site=repo_site(e), features=[], desc="%r: escaped with %s" % (cfg, type(e).__name__),
                              detail=exc_summary(e), schema=schema(cfg["marker"]), replay=dict(kind="c17", cfg=cfg))
                continue
            want = expected_refusal(cfg)
            out.cls("class:%s:%s" % (want or "success", cfg["lang"]))
            out.outcome(cfg["marker"], cfg["lang"], cfg["opt"], tuple(cfg["F"] or ()), status != 0)

            def viol(symptom, detail):
                out.violation(check="flags", symptom=symptom, site="compiler/bitproto/_main.py", features=["lang:" + cfg["lang"], "marker:" + cfg["marker"]],
                              sig_features=[symptom, cfg["lang"], cfg["marker"], str(cfg["opt"])],
                              desc="%r :: %s" % (cfg, detail[:400]), detail=detail, schema=schema(cfg["marker"]), replay=dict(kind="c17", cfg=cfg))

            if want:
                out.count("nontrivial")
                if status == 0 or files or not msg.strip():
                    viol("not_refused", "expected refusal (%s): exit=%s files=%s diagnostic=%r" % (want, status, sorted(files), msg[:200]))
                continue
            if status != 0 or not files:
                viol("unexpected_refusal", "exit=%s files=%s message=%r" % (status, sorted(files), msg[:300]))
                continue
            if not cfg["opt"]:
                continue
            # compare with the unfiltered -O output of the same configuration
            key = (cfg["marker"], cfg["lang"], cfg["endian"])
            if key not in golden:
                g_status, g_msg, g_files = run_main(d, dict(cfg, F=None, quiet=True))
                if g_status != 0:
                    viol("unfiltered_O_refused", g_msg[:300])
                    continue
                golden[key] = g_files
            g_files = golden[key]
            if cfg["F"] is None:
                if files != g_files:
                    viol("lint_flag_changes_output", "output with -q differs from output without")
                continue
            out.count("nontrivial")
            selected = set(n for n in cfg["F"] if n in C_NAME)
            want_names = set(x for n in selected for x in C_NAME[n])
            for fname, text in files.items():
                if fname not in g_files:
                    viol("different_file_set", "%s vs %s" % (sorted(files), sorted(g_files)))
                    break
                fs, gs = funcs(cfg["lang"], fname, text), funcs(cfg["lang"], fname, g_files[fname])
                got_names = set(n for _, n in fs)
                if got_names != want_names:
                    viol("wrong_function_set", "%s: -F %s yields functions for %s, expected %s" % (fname, cfg["F"], sorted(got_names), sorted(want_names)))
                    break
                for k2, body in fs.items():
                    if gs.get(k2) != body:
                        viol("function_text_differs", "%s: %s%s differs from the unfiltered output" % (fname, k2[0], k2[1]))
                        break
                if strip_funcs(cfg["lang"], fname, text) != strip_funcs(cfg["lang"], fname, g_files[fname]):
                    viol("declarations_differ", "%s: type/constant/size declarations differ from the unfiltered output" % fname)
                    break
            if len(out.samples) < 2:
                out.sample(dict(cfg=cfg, files={k: len(v) for k, v in files.items()}, functions=sorted(n for f, t in files.items() for _, n in funcs(cfg["lang"], f, t))))
    return out.result()


def run_cli(unit):
    """The distinct refusal/success classes as real subprocesses."""
    out = UnitOut()
    env = dict(os.environ, PYTHONPATH=bind.COMPILER_DIR)
    picks = []
    for marker in ("none", "nested_message", "imported_by_imported"):
        for lang in ("c", "go", "py"):
            for opt in (False, True):
                for F in (None, ["Inner"]):
                    picks.append(dict(marker=marker, lang=lang, opt=opt, F=F, endian="both", quiet=True))
    with Scratch() as sc:
        for k, cfg in enumerate(picks):
            d = sc.sub("k%d" % k)
            for fn, tx in schema(cfg["marker"]).items():
                with open(os.path.join(d, fn), "w") as f:
                    f.write(tx)
            args = [sys.executable, "-m", "bitproto._main", cfg["lang"], "t.bitproto", "out", "-q"]
            os.makedirs(os.path.join(d, "out"))
            if cfg["opt"]:
                args.append("-O")
            if cfg["F"]:
                args += ["-F", ",".join(cfg["F"])]
            r = subprocess.run(args, cwd=d, capture_output=True, text=True, env=env, timeout=120)
            files = os.listdir(os.path.join(d, "out"))
            want = expected_refusal(cfg)
            # the -F list may be spelled with blanks around the commas: same selection, same output
            if cfg["opt"] and cfg["F"] and cfg["marker"] == "none" and cfg["lang"] in ("c", "go") and r.returncode == 0:
                base = {f: open(os.path.join(d, "out", f)).read() for f in files}
                for spelled in ("Inner,Last", "Inner, Last", " Inner ,Last ", "Inner , Last,Nope"):
                    o2 = os.path.join(d, "out2")
                    os.makedirs(o2, exist_ok=True)
                    for f in os.listdir(o2):
                        os.remove(os.path.join(o2, f))
                    o3 = os.path.join(d, "out3")
                    os.makedirs(o3, exist_ok=True)
                    r2 = subprocess.run([sys.executable, "-m", "bitproto._main", cfg["lang"], "t.bitproto", "out2", "-q", "-O", "-F", spelled], cwd=d, capture_output=True, text=True, env=env, timeout=120)
                    r3 = subprocess.run([sys.executable, "-m", "bitproto._main", cfg["lang"], "t.bitproto", "out3", "-q", "-O", "-F", "Inner,Last"], cwd=d, capture_output=True, text=True, env=env, timeout=120)
                    out.count("cli_runs", 2)
                    a = {f: open(os.path.join(o2, f)).read() for f in os.listdir(o2)}
                    b = {f: open(os.path.join(o3, f)).read() for f in os.listdir(o3)}
                    if r2.returncode != 0 or a != b:
                        out.violation(check="cli-subprocess", symptom="filter_spelling_changes_selection", site="_main:run_bitproto", features=["lang:" + cfg["lang"]],
                                      sig_features=[cfg["lang"], spelled], desc="-O -F %r (exit %d) does not give the output of -F Inner,Last: differing files %s" % (
                                          spelled, r2.returncode, sorted(f for f in set(a) | set(b) if a.get(f) != b.get(f))), schema=schema(cfg["marker"]),
                                      replay=dict(kind="c17", cfg=cfg))
            out.count("states")
            out.count("transitions")
            out.count("evaluations")
            out.count("traces")
            out.count("cli_runs")
            bad = None
            if want and (r.returncode == 0 or files or not r.stderr.strip() or "Traceback" in r.stderr):
                bad = "expected refusal (%s): exit=%d files=%s stderr=%r" % (want, r.returncode, files, r.stderr[-200:])
            if not want and (r.returncode != 0 or not files):
                bad = "expected success: exit=%d files=%s stderr=%r" % (r.returncode, files, r.stderr[-200:])
            if bad:
                out.violation(check="cli-subprocess", symptom="wrong_cli_outcome", site="_main", features=["lang:" + cfg["lang"]], sig_features=[str(cfg)],
                              desc="%r :: %s" % (cfg, bad), schema=schema(cfg["marker"]), replay=dict(kind="c17", cfg=cfg))
    out.sample(dict(kind="cli", runs=len(picks)))
    return out.result()


def dispatch(unit):
    return run_cli(unit) if unit[0] == "CLI" else run_unit(unit)


def units(tier):
    n = len(configs(tier))
    return [("P", tier, i, min(n, i + 80)) for i in range(0, n, 80)] + [("CLI", tier)]


def main(pid, tier):
    t0 = time.time()
    acc = Acc()
    acc.merge(run_units(units(tier), dispatch, maxtasks=20))
    c = acc.counters
    g = []
    for need in ("class:extensible:c", "class:extensible:go", "class:language:py", "class:filter-without-O:c", "class:success:c", "class:success:go", "class:success:py"):
        if acc.classes.get(need, 0) < 1:
            g.append("no configuration of " + need)
    cov = dict(states=c["states"], transitions=c["transitions"], traces_validated_against_impl=c["traces"], evaluations=c["evaluations"],
               distinct_nontrivial=c["nontrivial"], cli_subprocess_runs=c["cli_runs"],
               rule="one schema family (3 files, nested message sharing a simple name with a top-level one) x extensible marker at 7 positions x "
                    "{c, go, py} x -O on/off x -F over all 15 non-empty subsets of {Inner, Outer, Last, unknown} or absent x --endian x -q; oracle: refusal "
                    "table ((-O and marker anywhere) or (-O and py) or (-F without -O) => diagnostic, exit != 0, no file); for -O -F S the defined and "
                    "declared Encode/Decode functions are exactly those of the named messages, textually identical to the unfiltered -O output, and the "
                    "remaining text (types, constants, sizes) is identical; non-trivial = refusal expected or -F given",
               exhaustive=True, bound="%d configurations" % len(configs(tier)))
    return finish(PID, tier, acc, cov, t0, assumptions=["in-process main() with fatal() replaced; bound to the real CLI by the subprocess classes"], guards=g)


def replay(payload):
    bind.bind()
    import bpmc.checks.c17 as me
    cfg = payload["replay"]["cfg"]
    saved = me.configs
    me.configs = lambda tier: [cfg]
    try:
        res = run_unit(("P", "quick", 0, 1))
    finally:
        me.configs = saved
    if res.get("violations"):
        print("REPRODUCED: %s" % res["violations"][0].get("desc"))
        return 1
    print("NOT REPRODUCED")
    return 0
