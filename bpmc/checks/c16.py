"""C16: JSON output is valid JSON that states the message's values (Python and C)."""
import json
import time

from .. import bind, cback, ref, scope, values
from ..evidence import finish, pack, unpack
from ..explore import Acc, UnitOut, exc_summary, repo_site, run_units
from ..pyback import Scratch, compile_py, set_vec, watchdog
from . import pycodec

PID = "C16"
BATCH = 32


def pairs_hook(pairs):
    return ref.MsgTree(pairs)


def same(expected, got) -> bool:
    """Strict structural equality: key order, bool vs int, list vs object."""
    if isinstance(expected, ref.MsgTree):
        if not isinstance(got, ref.MsgTree) or len(expected) != len(got):
            return False
        return all(k1 == k2 and same(v1, v2) for (k1, v1), (k2, v2) in zip(expected, got))
    if isinstance(expected, list):
        return isinstance(got, list) and len(expected) == len(got) and all(same(a, b) for a, b in zip(expected, got))
    if isinstance(expected, bool):
        return isinstance(got, bool) and expected == got
    return isinstance(got, int) and not isinstance(got, bool) and expected == got


def normalise_dict(d):
    """to_dict() result -> MsgTree/list/int (bytearray -> list, IntEnum -> int), order kept."""
    if isinstance(d, dict):
        return ref.MsgTree((k, normalise_dict(v)) for k, v in d.items())
    if isinstance(d, (list, tuple, bytearray, bytes)):
        return [normalise_dict(v) for v in d]
    if isinstance(d, bool):
        return d
    return int(d)


def feats(c, lay):
    f = pycodec.case_features(c, lay)
    from ..ir import Array, Byte, Named, AliasDef, MessageDef

    def has_bytes(t):
        if isinstance(t, Named):
            d = t.target
            if isinstance(d, AliasDef):
                return has_bytes(d.type)
            if isinstance(d, MessageDef):
                return any(has_bytes(x.type) for x in d.fields())
            return False
        if isinstance(t, Array):
            return isinstance(t.elem, Byte) or has_bytes(t.elem)
        return False

    if any(has_bytes(x.type) for x in c.msg.fields()):
        f.append("byte_array")
    return f


def _viol(out, check, symptom, site, c, lay, desc, detail="", vec=None):
    out.violation(check=check, symptom=symptom, site=site, features=feats(c, lay), desc="%s :: %s" % (c.desc, desc), detail=detail,
                  schema=pycodec.schema_text(c), value=vec, replay=dict(kind="c16", case=pack(c), vec=vec))


def run_unit(unit):
    _, tier, idxs = unit
    sp = pycodec.c_space(tier)
    cases = [sp[i] for i in idxs]
    out = UnitOut()
    with Scratch() as sc:
        run_batch(tier, cases, sc, out, "0")
    return out.result()


def run_batch(tier, cases, sc, out, tag):
    ms = None
    try:
        ms, _, _ = compile_py(scope.make_batch(cases), sc.sub("py" + tag))
    except Exception as e:
        if len(cases) > 1:
            for k, c in enumerate(cases):
                run_batch(tier, [c], sc, out, "%s_%d" % (tag, k))
            return
        c = cases[0]
        out.count("states")
        _viol(out, "pipeline", type(e).__name__, repo_site(e), c, ref.layout(c.msg), "python pipeline failed", exc_summary(e))
        return
    h = None
    try:
        cb = cback.CBatch(cases, sc.sub("c" + tag))
        cb.build("std-O1")
        h = cb.harness("std-O1")
    except Exception as e:
        if len(cases) > 1:
            ms.unload()
            for k, c in enumerate(cases):
                run_batch(tier, [c], sc, out, "%s_%d" % (tag, k))
            return
        c = cases[0]
        _viol(out, "pipeline", type(e).__name__, "c-build", c, ref.layout(c.msg), "C pipeline failed", str(e)[-1500:])
    try:
        for r, c in enumerate(cases):
            _run_case(tier, c, r, ms.module, h, out)
    finally:
        ms.unload()
        if h:
            h.close()


def pick_values(leaves, tier):
    if values.has_enum_without_members(leaves):
        return []
    b = values.basis(leaves)
    lim = 48 if tier == "quick" else 400
    if len(b) <= lim:
        return b
    step = len(b) / float(lim - 8)
    idx = sorted(set([0, 1, len(b) - 1, len(b) - 2] + [int(i * step) for i in range(lim - 8)]))
    return [b[i] for i in idx if i < len(b)]


def _run_case(tier, c, r, mod, h, out):
    lay = ref.layout(c.msg)
    leaves = [l for l in lay if l.is_value]
    out.count("states")
    for f in feats(c, lay):
        if f in ("byte_array", "signed", "enum", "extensible"):
            out.cls(f)
    for l in leaves:
        out.cls("width<=%d:%s" % (8 if l.width <= 8 else 16 if l.width <= 16 else 32 if l.width <= 32 else 64, "s" if l.signed else "u"))
    cls = getattr(mod, c.msg.name, None)
    vecs = pick_values(leaves, tier)
    first = True
    for vec in vecs:
        expected = ref.tree(c.msg, vec)
        out.count("transitions", 3)
        nontrivial = any(vec)
        pyval = None
        # ---- Python to_json / to_dict
        if cls is not None:
            try:
                with watchdog(10):
                    o = cls()
                    set_vec(o, leaves, vec)
                    text = o.to_json()
                    d = o.to_dict()
            except Exception as e:
                _viol(out, "py-json", type(e).__name__, repo_site(e), c, lay, "to_json()/to_dict() raised", exc_summary(e), vec)
                text = None
            if text is not None:
                out.count("evaluations", 2)
                out.count("traces", 2)
                if nontrivial:
                    out.count("nontrivial")
                try:
                    pyval = json.loads(text, object_pairs_hook=pairs_hook)
                except Exception as e:
                    _viol(out, "py-json", "invalid_json", "lib/py/bitprotolib/bp.py:to_json", c, lay, "to_json() is not JSON: %r" % text[:200], str(e), vec)
                if pyval is not None and not same(expected, pyval):
                    _viol(out, "py-json", "wrong_value", "lib/py/bitprotolib/bp.py:to_json", c, lay,
                          "vec=%s to_json=%s expected=%s" % (vec, text[:300], json.dumps(ref.tree_to_plain(expected))[:300]), "", vec)
                nd = normalise_dict(d)
                if not same(expected, nd):
                    _viol(out, "py-dict", "wrong_value", "lib/py/bitprotolib/bp.py:to_dict", c, lay,
                          "vec=%s to_dict=%r expected=%s" % (vec, d, json.dumps(ref.tree_to_plain(expected))[:300]), "", vec)
                out.outcome(text)
        # ---- C Json<Name>
        if h is not None:
            try:
                ctext, rc_ok = h.json(r, h.image(r, leaves, vec))
            except cback.HarnessFault as e:
                _viol(out, "c-json", "fault", "lib/c/bitproto.c:json", c, lay, "harness died in Json: %s" % e, e.stderr, vec)
                raise
            out.count("evaluations")
            out.count("traces")
            cval = None
            try:
                cval = json.loads(ctext, object_pairs_hook=pairs_hook)
            except Exception as e:
                _viol(out, "c-json", "invalid_json", "lib/c/bitproto.c:json", c, lay, "Json%s() is not JSON: %r" % (c.msg.name, ctext[:200]), str(e), vec)
            if cval is not None and not same(expected, cval):
                _viol(out, "c-json", "wrong_value", "lib/c/bitproto.c:json", c, lay,
                      "vec=%s C json=%s expected=%s" % (vec, ctext[:300], json.dumps(ref.tree_to_plain(expected))[:300]), "", vec)
            if not rc_ok:
                _viol(out, "c-json", "wrong_length_returned", "lib/c/bitproto.c:json", c, lay,
                      "Json%s() return value != strlen of the C string it wrote into a buffer that was not zeroed beforehand (missing terminator?): %r" % (c.msg.name, ctext[-60:]), "", vec)
            if cval is not None and pyval is not None and not same(cval, pyval) and same(expected, cval) == same(expected, pyval):
                _viol(out, "interop", "py_c_json_differ", "json", c, lay, "python %s vs C %s" % (text[:200], ctext[:200]), "", vec)
            if first:
                out.sample(dict(schema=pycodec.schema_text(c)["t.bitproto"][-250:], value=vec, c_json=ctext[:300]))
                first = False


def units(tier):
    sp = pycodec.c_space(tier)
    idx = list(range(len(sp)))
    return [(PID, tier, idx[i:i + BATCH]) for i in range(0, len(idx), BATCH)]


def main(pid, tier):
    t0 = time.time()
    acc = Acc()
    acc.merge(run_units(units(tier), run_unit, maxtasks=10))
    c = acc.counters
    g = []
    for need in ["byte_array", "signed", "enum", "extensible"] + ["width<=%d:%s" % (w, s) for w in (8, 16, 32, 64) for s in "us"]:
        if acc.classes.get(need, 0) < 1:
            g.append("no state of class " + need)
    cov = dict(states=c["states"], transitions=c["transitions"], traces_validated_against_impl=c["traces"], evaluations=c["evaluations"],
               distinct_nontrivial=c["nontrivial"],
               rule="states = SING u COMB u TREE; values = BASIS (capped per state, extremes always kept); Python to_json()/to_dict() and C Json<Name>() "
                    "parsed with json.loads(object_pairs_hook) and compared strictly (key order, bool vs number, list vs object, sign) with the reference "
                    "value tree; non-trivial = value has a bit set", exhaustive=True,
               bound="SING(%s) u COMB(2) u TREE u HOMONYMS; <= %d values per state" % (tier, 48 if tier == "quick" else 400))
    return finish(PID, tier, acc, cov, t0, assumptions=["reference value tree ref.tree", "CPython json module"], guards=g)


def replay(payload):
    bind.bind()
    r = payload["replay"]
    c = unpack(r["case"])
    out = UnitOut()
    with Scratch() as sc:
        run_batch("quick", [c], sc, out, "r")
    if out.violations:
        print("REPRODUCED: %s" % out.violations[0].get("desc"))
        return 1
    print("NOT REPRODUCED")
    return 0
