"""C19: Go standard-mode output describes the same messages as the Python output."""
import ast as pyast
import os
import re
import time

from .. import bind, gofront, ref, scope
from ..evidence import finish, pack, unpack
from ..explore import Acc, UnitOut, exc_summary, repo_site, run_units
from ..ir import AliasDef, Array, Bool, Byte, EnumDef, Int, MessageDef, Named, Uint, write_files
from ..pyback import Scratch, parse_file, quiet_stderr, render_strings
from . import copt, pycodec

PID = "C19"
BATCH = 24


# ----------------------------------------------------------------- normal form of processor trees
def ref_tree(t):
    if isinstance(t, Bool):
        return ("bool",)
    if isinstance(t, Byte):
        return ("byte",)
    if isinstance(t, Uint):
        return ("uint", t.n)
    if isinstance(t, Int):
        return ("int", t.n)
    if isinstance(t, Array):
        return ("arr", t.ext, t.cap, ref_tree(t.elem))
    if isinstance(t, Named):
        d = t.target
        if isinstance(d, EnumDef):
            return ("enum", d.width)
        if isinstance(d, AliasDef):
            return ("alias", ref_tree(d.type))
        return ref_tree(d)
    if isinstance(t, MessageDef):
        return ("msg", t.ext, ref.nbits(t), tuple((f.number, ref_tree(f.type)) for f in t.sorted_fields()))
    raise TypeError(t)


MACHINES = {}  # import alias -> gofront.Machine of the imported package (set per batch)


def go_tree(m: gofront.Machine, e, depth=0):
    """Normalise a Go processor expression."""
    if depth > 40:
        raise bind.InfraError("go processor tree too deep")
    while e[0] == "paren":
        e = e[1]
    if e[0] != "call":
        raise bind.InfraError("unexpected Go processor expression %r" % (e[0],))
    f, args = e[1], e[2]
    if f[0] == "sel" and f[1][0] == "id" and f[1][1] == "bp":
        n = f[2]
        if n == "NewBool":
            return ("bool",)
        if n == "NewByte":
            return ("byte",)
        if n == "NewUint":
            return ("uint", args[0][1])
        if n == "NewInt":
            return ("int", args[0][1])
        if n == "NewArray":
            return ("arr", args[0][1] == "true", args[1][1], go_tree(m, args[2], depth + 1))
        if n == "NewEnumProcessor":
            inner = go_tree(m, args[0], depth + 1)
            return ("enum", inner[1])
        if n == "NewAliasProcessor":
            return ("alias", go_tree(m, args[0], depth + 1))
        raise bind.InfraError("unknown bp constructor %s" % n)
    if f[0] == "sel" and f[2] == "BpProcessor":
        # (T(0)).BpProcessor() / (&T{}).BpProcessor() / (T{}).BpProcessor()
        x = f[1]
        while x[0] in ("paren", "un"):
            x = x[1] if x[0] == "paren" else x[2]
        if x[0] == "call":
            x = x[1]
        if x[0] == "lit":
            x = x[1]
        if x[0] == "sel":
            # pkg.Type: the type lives in an imported package
            if x[1][0] != "id" or x[1][1] not in MACHINES:
                return ("missing", "%r" % (x,))
            m2 = MACHINES[x[1][1]]
            meth = m2.methods.get((x[2], "BpProcessor"))
            if meth is None:
                return ("missing", "%s.%s" % (x[1][1], x[2]))
            return go_method_tree(m2, meth, depth + 1)
        tname = x[1]
        meth = m.methods.get((tname, "BpProcessor"))
        if meth is None:
            return ("missing", tname)
        return go_method_tree(m, meth, depth + 1)
    raise bind.InfraError("unexpected Go processor call")


def go_method_tree(m, meth, depth=0):
    body = meth[5]
    if len(body) == 1 and body[0][0] == "return":
        return go_tree(m, body[0][1][0], depth)
    # message: fieldDescriptors := []*bp.MessageFieldProcessor{...}; return bp.NewMessageProcessor(ext, nbits, fieldDescriptors)
    fields = []
    for s in body:
        if s[0] == "assign" and s[3][0][0] == "lit":
            for k, v in s[3][0][2]:
                fields.append((v[2][0][1], go_tree(m, v[2][1], depth + 1)))
        if s[0] == "return":
            a = s[1][0][2]
            return ("msg", a[0][1] == "true", a[1][1], tuple(fields))
    raise bind.InfraError("unexpected BpProcessor body")


PYMODS = {}  # import alias -> (funcs, classes) of the imported generated module (set per batch)


def py_tree(mod: pyast.Module, funcs, classes, e, depth=0):
    if depth > 40:
        raise bind.InfraError("py processor tree too deep")
    if not isinstance(e, pyast.Call):
        raise bind.InfraError("unexpected python processor expression")
    f = e.func
    if isinstance(f, pyast.Attribute) and isinstance(f.value, pyast.Name) and f.value.id == "bp":
        n = f.attr
        a = e.args
        if n == "Bool":
            return ("bool",)
        if n == "Byte":
            return ("byte",)
        if n == "Uint":
            return ("uint", a[0].value)
        if n == "Int":
            return ("int", a[0].value)
        if n == "Array":
            return ("arr", a[0].value, a[1].value, py_tree(mod, funcs, classes, a[2], depth + 1))
        if n == "EnumProcessor":
            return ("enum", py_tree(mod, funcs, classes, a[0], depth + 1)[1])
        if n == "AliasProcessor":
            return ("alias", py_tree(mod, funcs, classes, a[0], depth + 1))
        raise bind.InfraError("unknown bp.%s" % n)
    if isinstance(f, pyast.Name) and f.id in funcs:
        ret = [s for s in funcs[f.id].body if isinstance(s, pyast.Return)][0]
        return py_tree(mod, funcs, classes, ret.value, depth + 1)
    if isinstance(f, pyast.Attribute) and isinstance(f.value, pyast.Name) and f.value.id in PYMODS and f.attr in PYMODS[f.value.id][0]:
        lf, lc = PYMODS[f.value.id]
        ret = [s for s in lf[f.attr].body if isinstance(s, pyast.Return)][0]
        return py_tree(mod, lf, lc, ret.value, depth + 1)
    if isinstance(f, pyast.Attribute) and f.attr == "bp_processor" and isinstance(f.value, pyast.Call) and isinstance(f.value.func, pyast.Attribute) \
            and isinstance(f.value.func.value, pyast.Name) and f.value.func.value.id in PYMODS:
        lf, lc = PYMODS[f.value.func.value.id]
        return py_class_tree(mod, lf, lc, f.value.func.attr, depth + 1)
    if isinstance(f, pyast.Attribute) and f.attr == "bp_processor" and isinstance(f.value, pyast.Call) and isinstance(f.value.func, pyast.Name):
        return py_class_tree(mod, funcs, classes, f.value.func.id, depth + 1)
    raise bind.InfraError("unexpected python processor call %s" % pyast.dump(e)[:80])


def py_class_tree(mod, funcs, classes, cname, depth=0):
    cls = classes[cname]
    fn = [s for s in cls.body if isinstance(s, pyast.FunctionDef) and s.name == "bp_processor"][0]
    fields = []
    for s in fn.body:
        if isinstance(s, pyast.AnnAssign) and isinstance(s.value, pyast.List):
            for el in s.value.elts:
                fields.append((el.args[0].value, py_tree(mod, funcs, classes, el.args[1], depth + 1)))
        if isinstance(s, pyast.Return):
            a = s.value.args
            return ("msg", a[0].value, a[1].value, tuple(fields))
    raise bind.InfraError("unexpected bp_processor body")


# -------------------------------------------------------------------------- per message checks
def storage(width, signed):
    bits = 8 if width <= 8 else 16 if width <= 16 else 32 if width <= 32 else 64
    return bits, signed


def field_shape(t):
    """(array depth, base kind, width, named?) of a field type, looking through aliases."""
    depth = 0
    while True:
        if isinstance(t, Array):
            depth += 1
            t = t.elem
        elif isinstance(t, Named) and isinstance(t.target, AliasDef):
            t = t.target.type
        else:
            break
    if isinstance(t, Bool):
        return depth, "bool", 1
    if isinstance(t, Byte):
        return depth, "byte", 8
    if isinstance(t, Uint):
        return depth, "uint", t.n
    if isinstance(t, Int):
        return depth, "int", t.n
    if isinstance(t, Named) and isinstance(t.target, EnumDef):
        return depth, "enum", t.target.width
    return depth, "msg", 0


def count_index(e):
    """(root field name, number of index operations) of m.F[..][..]"""
    n = 0
    while e[0] in ("paren", "index", "un", "call", "bin"):
        if e[0] == "bin":
            e = e[2]
        elif e[0] == "index":
            n += 1
            e = e[1]
        elif e[0] == "paren":
            e = e[1]
        elif e[0] == "un":
            e = e[2]
        elif e[0] == "call":  # conversions such as bool(m.Fl), bp.Bool2byte(m.B)
            if not e[2]:
                break
            e = e[2][0]
    if e[0] == "sel":
        return e[2], n
    return None, n


def index_order(e):
    """The arguments k of the di.I(k) calls indexing m.F[..][..], OUTERMOST array dimension first (None for an index that is not di.I(<literal>))."""
    idx = []
    while e[0] in ("paren", "index", "un", "call", "bin"):
        if e[0] == "bin":
            e = e[2]
        elif e[0] == "index":
            ix = e[2]
            k = None
            while ix[0] == "paren":
                ix = ix[1]
            if ix[0] == "call" and ix[1][0] == "sel" and ix[1][2] == "I" and len(ix[2]) == 1 and isinstance(ix[2][0][1], (int, str)) and str(ix[2][0][1]).isdigit():
                k = int(ix[2][0][1])
            idx.append(k)
            e = e[1]
        elif e[0] == "paren":
            e = e[1]
        elif e[0] == "un":
            e = e[2]
        elif e[0] == "call":
            if not e[2]:
                break
            e = e[2][0]
    return idx[::-1]


def switch_cases(meth):
    """{case number: [statements]} of `switch di.F() {...}`"""
    for s in meth[5]:
        if s[0] == "switch":
            out = {}
            for vals, body in s[2]:
                if vals is None:
                    continue
                for v in vals:
                    out[v[1]] = body
            return out
    return {}


def go_type_text(t):
    if t[0] == "name":
        return t[1]
    if t[0] == "array":
        return "[%s]%s" % (t[1][1], go_type_text(t[2]))
    if t[0] == "qual":
        return "%s.%s" % (t[1], t[2])
    return t[0]


def check_message(m: gofront.Machine, md: MessageDef, sname: str, problems):
    st = m.types.get(sname)
    if st is None or st[0] != "struct":
        problems.append(("struct", "no struct %s" % sname))
        return
    fields = md.sorted_fields()
    if [f[2] for f in st[1]] != ['json:"%s"' % f.name for f in fields]:
        problems.append(("struct", "%s: fields/tags %r, expected field-number order %r" % (sname, [f[2] for f in st[1]], [f.name for f in fields])))
        return
    by_num = {}
    for (gname, gtype, tag, line), f in zip(st[1], fields):
        if not gname[:1].isupper():
            problems.append(("struct", "%s.%s is not exported (PascalCase)" % (sname, gname)))
        depth, kind, width = field_shape(f.type)
        # element type through array layers of the struct field's own type
        t = gtype
        d = 0
        m_outer = m
        while True:
            if t[0] == "qual" and t[1] in MACHINES:
                m = MACHINES[t[1]]
                t = ("name", t[2])
            while t[0] == "name" and t[1] in m.types and m.types[t[1]][0] in ("array", "name") and kind != "msg" and m.int_info(t[1]) is None \
                    and m.underlying(t[1]) != ("name", "bool"):
                t = m.types[t[1]]
            if t[0] == "name" and t[1] in m.types and m.types[t[1]][0] == "array":
                t = m.types[t[1]]
            if t[0] == "array":
                d += 1
                t = t[2]
                continue
            break
        if d != depth:
            problems.append(("struct", "%s.%s has array depth %d, expected %d" % (sname, gname, d, depth)))
        if kind in ("uint", "int", "enum", "byte"):
            info = m.int_info(t[1]) if t[0] == "name" else None
            want = storage(width, kind == "int")
            if info != want:
                problems.append(("struct", "%s.%s element type %s is %r, expected the smallest covering %sint%d" % (sname, gname, go_type_text(t), info, "" if kind == "int" else "u", want[0])))
        elif kind == "bool":
            if t[0] != "name" or m.underlying(t[1]) != ("name", "bool"):
                problems.append(("struct", "%s.%s element type %s is not bool" % (sname, gname, go_type_text(t))))
        by_num[f.number] = (gname, depth, kind, width)
        m = m_outer
    meths = {n: m.methods.get((sname, n)) for n in ("BpSetByte", "BpGetByte", "BpGetAccessor", "BpProcessInt", "Size")}
    for n, meth in meths.items():
        if meth is None:
            problems.append(("methods", "%s has no method %s" % (sname, n)))
            return
    setc, getc, accc, intc = (switch_cases(meths[k]) for k in ("BpSetByte", "BpGetByte", "BpGetAccessor", "BpProcessInt"))
    want_acc = {n for n, (g, d, k, w) in by_num.items() if k == "msg"}
    want_byte = {n for n, (g, d, k, w) in by_num.items() if k != "msg"}
    want_int = {n for n, (g, d, k, w) in by_num.items() if k == "int" and w not in (8, 16, 32, 64)}
    if set(accc) != want_acc:
        problems.append(("accessor", "%s.BpGetAccessor has cases %s, message-typed fields are %s" % (sname, sorted(accc), sorted(want_acc))))
    if set(setc) != want_byte or set(getc) != want_byte:
        problems.append(("accessor", "%s.BpSetByte cases %s / BpGetByte cases %s, single-typed fields are %s" % (sname, sorted(setc), sorted(getc), sorted(want_byte))))
    if set(intc) != want_int:
        problems.append(("signext", "%s.BpProcessInt has cases %s, signed fields with non-standard width are %s" % (sname, sorted(intc), sorted(want_int))))
    for n, (g, depth, kind, width) in by_num.items():
        for label, cases in (("BpSetByte", setc), ("BpGetByte", getc), ("BpGetAccessor", accc), ("BpProcessInt", intc)):
            if n not in cases:
                continue
            for s in cases[n]:
                target = None
                if s[0] == "assign":
                    target = s[2][0]
                elif s[0] == "return" and s[1]:
                    target = s[1][0]
                    if target[0] == "bin":  # Bool2byte(x) >> rshift
                        target = target[2]
                if target is None:
                    continue
                root, nidx = count_index(target)
                order = index_order(target)
                if root == g and nidx == depth and order != list(range(depth)):
                    problems.append(("accessor", "%s.%s case %d indexes %s with di.I%s; the array-index stack is outermost first: expected di.I%s" % (
                        sname, label, n, root, order, list(range(depth)))))
                if root != g or nidx != depth:
                    problems.append(("accessor", "%s.%s case %d addresses %s with %d index operation(s); field %d is %s with array depth %d" % (
                        sname, label, n, root, nidx, n, g, depth)))
                if label == "BpSetByte" and s[0] == "assign" and kind in ("uint", "int", "enum", "byte"):
                    rhs = s[3][0]
                    while rhs[0] == "paren":
                        rhs = rhs[1]
                    conv = rhs[2] if rhs[0] == "bin" else rhs
                    while conv[0] == "paren":
                        conv = conv[1]
                    if conv[0] == "call" and conv[1][0] in ("id", "sel"):
                        if conv[1][0] == "sel":
                            info = MACHINES[conv[1][1][1]].int_info(conv[1][2]) if conv[1][1][0] == "id" and conv[1][1][1] in MACHINES else None
                            cname = "%s.%s" % (conv[1][1][1], conv[1][2])
                        else:
                            info = m.int_info(conv[1][1])
                            cname = conv[1][1]
                        conv = ("call", ("id", cname))
                        if info != storage(width, kind == "int"):
                            problems.append(("accessor", "%s.BpSetByte case %d converts through %s (%r), storage is %r" % (sname, n, conv[1][1], info, storage(width, kind == "int"))))
                if label == "BpProcessInt" and s[0] == "assign":
                    k = s[3][0][1]
                    if k != storage(width, True)[0] - width or s[1] not in ("<<=", ">>="):
                        problems.append(("signext", "%s.BpProcessInt case %d shifts by %s with %s; int%d in int%d needs %d" % (
                            sname, n, k, s[1], width, storage(width, True)[0], storage(width, True)[0] - width)))
            if label == "BpProcessInt" and n in cases:
                ops = [s[1] for s in cases[n] if s[0] == "assign"]
                if ops != ["<<=", ">>="]:
                    problems.append(("signext", "%s.BpProcessInt case %d statements %s, expected <<= then >>=" % (sname, n, ops)))


def messages_of(c: scope.Case):
    """(MessageDef, Go/C struct name, Python class name) for every message of a single-file case."""
    out = []

    def rec(md, path):
        out.append((md, "".join(path + (md.name,)), "_".join(path + (md.name,))))
        for it in md.items:
            if isinstance(it, MessageDef):
                rec(it, path + (md.name,))

    for d in c.top:
        if isinstance(d, MessageDef):
            rec(d, ())
    rec(c.msg, ())
    return out


def run_unit(unit):
    _, tier, idxs = unit
    sp = pycodec.space(tier)
    cases = [sp[i] for i in idxs]
    out = UnitOut()
    global MACHINES, PYMODS
    with Scratch() as sc:
        d = sc.sub("g")
        batch = scope.make_batch(cases)
        write_files(batch, d)
        try:
            with quiet_stderr():
                p = parse_file(os.path.join(d, batch.filename))
                gotext = "\n".join(render_strings(p, "go").values())
                pytext = "\n".join(render_strings(p, "py").values())
                # imported files: each compiled on its own, as a user does
                libs = {}
                for (as_name, child) in batch.imports:
                    cp = parse_file(os.path.join(d, child.filename))
                    libs[as_name or child.name] = ("\n".join(render_strings(cp, "go").values()), "\n".join(render_strings(cp, "py").values()))
        except Exception as e:
            out.violation(check="pipeline", symptom=type(e).__name__, site=repo_site(e), features=[], desc="go/py rendering failed", detail=exc_summary(e))
            return out.result()
        try:
            gast = gofront.parse(gotext)
            MACHINES = {alias: gofront.Machine(gofront.parse(gt)) for alias, (gt, pt) in libs.items()}
        except gofront.GoSyntaxError as e:
            raise bind.InfraError("gofront cannot read generated Go: %s" % e)
        PYMODS = {}
        for alias, (gt, pt) in libs.items():
            lm = pyast.parse(pt)
            PYMODS[alias] = ({s.name: s for s in lm.body if isinstance(s, pyast.FunctionDef)}, {s.name: s for s in lm.body if isinstance(s, pyast.ClassDef)})
        m = gofront.Machine(gast)
        mod = pyast.parse(pytext)
        funcs = {s.name: s for s in mod.body if isinstance(s, pyast.FunctionDef)}
        classes = {s.name: s for s in mod.body if isinstance(s, pyast.ClassDef)}
        consts = dict((n, v) for n, v in re.findall(r"^const (BYTES_LENGTH_\w+) uint32 = (\d+)$", gotext, re.M))
        for c in cases:
            out.count("states")
            lay = ref.layout(c.msg)
            problems = []
            for md, gname, pname in messages_of(c):
                out.count("messages")
                out.count("transitions")
                out.count("evaluations", 4)
                out.count("traces")
                if len(md.fields()) > 1:
                    out.count("nontrivial")
                check_message(m, md, gname, problems)
                # sizes
                want = ref.nbytes(md)
                size_m = m.methods.get((gname, "Size"))
                gsize = size_m[5][0][1][0][1] if size_m and size_m[5] and size_m[5][0][0] == "return" else None
                pcls = classes.get(pname)
                plen = None
                if pcls is not None:
                    for s in pcls.body:
                        if isinstance(s, pyast.AnnAssign) and getattr(s.target, "id", None) == "BYTES_LENGTH":
                            plen = s.value.value
                gconst = [int(v) for n, v in consts.items() if re.sub("_", "", n[len("BYTES_LENGTH_"):]).lower() == gname.lower()]
                if gsize != want or plen != want or gconst != [want]:
                    problems.append(("size", "%s: Go Size()=%r const=%r Python BYTES_LENGTH=%r expected %d" % (gname, gsize, gconst, plen, want)))
                # processor trees: Go == Python == reference
                try:
                    gt = go_method_tree(m, m.methods[(gname, "BpProcessor")]) if (gname, "BpProcessor") in m.methods else None
                    pt = py_class_tree(mod, funcs, classes, pname) if pname in classes else None
                except bind.InfraError:
                    raise
                rt = ref_tree(md)
                out.outcome(repr(gt))
                if gt != rt or pt != rt:
                    problems.append(("processor", "%s: processor trees differ: go=%r python=%r reference=%r" % (gname, gt, pt, rt)))
            for kind, text in problems[:4]:
                out.violation(check="structure:" + kind, symptom="go_output_differs", site="compiler/bitproto/renderer/impls/go/renderer.py",
                              features=pycodec.case_features(c, lay), sig_features=[kind], desc="%s :: %s" % (c.desc, text), schema=pycodec.schema_text(c),
                              replay=dict(kind="c19", case=pack(c)))
        out.sample(dict(kind="structure", states=len(cases), example=cases[0].desc))
    return out.result()


def run_helpers(unit):
    """Go runtime helpers interpreted on their whole domain vs the Python runtime's."""
    bind.bind()
    import bitprotolib.bp as bp
    out = UnitOut()
    ast = gofront.parse(open(bind.GOLIB).read())
    m = gofront.Machine(ast)
    V = gofront.V

    def cmp(name, gargs, pyval, goval):
        out.count("evaluations")
        out.count("traces")
        out.count("transitions")
        out.count("nontrivial")
        if goval != pyval:
            out.violation(check="helpers", symptom="go_helper_differs", site="lib/go/bitproto.go:" + name, features=[], sig_features=[name],
                          desc="%s%r: go %r python %r" % (name, gargs, goval, pyval), replay=dict(kind="c19-helpers"))
            return False
        return True

    try:
        for k in range(8):
            for c in range(0, 9 - k):
                g = m.call(m.funcs["getMask"], None, [V("int", k), V("int", c)])
                if not cmp("getMask", (k, c), bp.get_mask(k, c) & 0xFF, g.v):
                    break
        out.count("states")
        for i in range(128):
            for n in range(1, 65):
                for j in range(n):
                    g = m.call(m.funcs["getNbitsToCopy"], None, [V("int", i), V("int", j), V("int", n)])
                    if not cmp("getNbitsToCopy", (i, j, n), bp.get_nbits_to_copy(i, j, n), g.v):
                        break
        out.count("states")
        for b in range(256):
            for k in range(-7, 8):
                g = m.call(m.funcs["smartShift"], None, [V("byte", b), V("int", k)])
                if not cmp("smartShift", (b, k), bp.smart_shift(b, k) & 0xFF, g.v):
                    break
        out.count("states")
        for a in range(-3, 10):
            for b in range(-3, 10):
                g = m.call(m.funcs["min"], None, [V("int", a), V("int", b)])
                cmp("min", (a, b), min(a, b), g.v)
        for b in range(256):
            g = m.call(m.funcs["Byte2bool"], None, [V("byte", b)])
            cmp("Byte2bool", (b,), bool(b), g.v)
        for b in (False, True):
            g = m.call(m.funcs["Bool2byte"], None, [V("bool", b)])
            cmp("Bool2byte", (b,), int(b), g.v)
        out.count("states", 3)
    except gofront.GoEvalError as e:
        raise bind.InfraError("gofront cannot evaluate the Go runtime helpers: %s" % e)
    out.sample(dict(kind="helpers", functions=["getMask", "getNbitsToCopy", "smartShift", "min", "Byte2bool", "Bool2byte"]))
    return out.result()


def dispatch(unit):
    return run_helpers(unit) if unit[0] == "H" else run_unit(unit)


def units(tier):
    sp = pycodec.space(tier)
    idx = list(range(len(sp)))
    return [("S", tier, idx[i:i + BATCH]) for i in range(0, len(idx), BATCH)] + [("H", tier)]


def main(pid, tier):
    t0 = time.time()
    acc = Acc()
    acc.merge(run_units(units(tier), dispatch, maxtasks=20))
    c = acc.counters
    cov = dict(states=c["states"], transitions=c["transitions"], traces_validated_against_impl=c["traces"], evaluations=c["evaluations"],
               distinct_nontrivial=c["nontrivial"], messages=c["messages"],
               rule="states of SING u COMB u TREE (incl. definitions placed in imported files): the generated .go text is parsed by bpmc/gofront; per message: struct fields in "
                    "field-number order with PascalCase names, json tags, smallest covering integer types, array depth; Size()/BYTES_LENGTH constant == "
                    "Python == ceil(N/8); BpProcessor() tree normalised to (field number, kind, width, capacity, extensible, children) == the tree "
                    "normalised from the generated Python bp_processor() == the reference layout; BpSetByte/BpGetByte/BpGetAccessor/BpProcessInt case "
                    "labels, addressed field, index depth, conversion type, sign-extension shifts; Go runtime helpers getMask/getNbitsToCopy/"
                    "smartShift/min/Byte2bool/Bool2byte interpreted on their whole domain vs lib/py; non-trivial = message with > 1 field / helper call",
               exhaustive=True, bound="SING(%s) u COMB(2) u TREE u HOMONYMS (definitions placed in imported files are resolved across the generated packages)" % tier)
    return finish(PID, tier, acc, cov, t0, assumptions=["bpmc/gofront's reading of the Go specification", "Python's ast module"])


def replay(payload):
    bind.bind()
    r = payload["replay"]
    if r["kind"] == "c19-helpers":
        res = run_helpers(("H", "quick"))
    else:
        c = unpack(r["case"])
        sp = pycodec.space("quick")
        import bpmc.checks.c19 as me
        saved = pycodec._SPACE_CACHE.get("replay")
        pycodec._SPACE_CACHE["replay"] = [c]
        res = run_unit(("S", "replay", [0]))
    if res.get("violations"):
        print("REPRODUCED: %s" % res["violations"][0].get("desc"))
        return 1
    print("NOT REPRODUCED")
    return 0
