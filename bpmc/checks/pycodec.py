"""C01 / C02: exploration of the generated Python encoder/decoder against the reference model.

States: SING u COMB(k) u TREE(n) schemas (canonical de-dup); per state the value space
EXH / BASIS; per state the bounded object histories (F5).  Every execution runs the real
compiler and the real runtime from /repo.
"""
import enum
import os
import time
from typing import Any, Dict, List

from .. import bind, ref, scope, values
from ..evidence import finish, pack, unpack
from ..explore import Acc, UnitOut, exc_summary, repo_site, run_units, sha
from ..ir import print_proto
from ..pyback import PyModuleSet, Scratch, compile_py, get_vec, set_leaf, set_vec, get_leaf, watchdog

BATCH = 24

_SPACE_CACHE: Dict[str, List[scope.Case]] = {}


def c14_space(tier: str) -> List[scope.Case]:
    """C14: the complete space {bool, byte, uint1..64, int1..64} x offsets 0..7 x
    {scalar, array element cap 3 (per-element path), cap 8 (batch path for standard widths),
    alias, alias-to-array element}."""
    kinds = [("bool", None), ("byte", None)] + [("uint", w) for w in range(1, 65)] + [("int", w) for w in range(1, 65)]
    cases, n = [], 0
    for kind, w in kinds:
        for wrapper, cap in (("scalar", 0), ("arr", 3), ("arr", 8), ("alias", 0), ("alias_arr", 3), ("arr_of_alias", 8)):
            for pad in range(8):
                c = scope.sing_case("k%d" % n, kind, w, wrapper, cap, pad, False)
                if c is not None:
                    cases.append(c)
                    n += 1
    return cases


def space(tier: str) -> List[scope.Case]:
    if tier.startswith("c14:") and tier not in _SPACE_CACHE:
        _SPACE_CACHE[tier] = c14_space(tier)
    if tier not in _SPACE_CACHE:
        quick = tier == "quick"
        cases = scope.sing_space(tier) + scope.comb_space(2 if quick else 3) \
            + scope.tree_space(4 if quick else 5) + scope.homonym_space() + scope.empty_space()
        # canonical de-duplication: same printed schema (names normalised) explored once
        seen, out = set(), []
        for c in cases:
            k = canon(c)
            if k not in seen:
                seen.add(k)
                out.append(c)
        _SPACE_CACHE[tier] = out
    return _SPACE_CACHE[tier]


def c_space(tier: str) -> List[scope.Case]:
    """The states whose C rendering is in scope (identifiers stay distinct in C's single name space)."""
    return [c for c in space(tier) if "c_name_clash" not in c.feats]


def canon(c: scope.Case) -> str:
    b = scope.make_batch([c])
    text = "\x00".join(print_proto(p)[0] for p in b.all_files())
    return sha(text.replace(c.cid, "@"))


def vmax(tier):
    if tier.startswith("c14:"):
        return 0  # C14's statement names the basis values: always BASIS
    return 8 if tier == "quick" else 11


ENC_PIDS = ("C01", "C14")
DEC_PIDS = ("C02", "C14")


def case_features(c: scope.Case, lay) -> List[str]:
    f = set(c.feats)
    for l in lay:
        if l.kind == "enum":
            f.add("enum")
            if l.width > 8:
                f.add("enum_width>8")
            if (l.offset % 8) + l.width > 8:
                f.add("enum_straddles_byte")
            if l.enum.members and l.enum.members[0][1] != 0:
                f.add("enum_first_nonzero")
            if not l.enum.members:
                f.add("enum_empty")
        if l.kind == "prefix":
            f.add("extensible")
        if l.signed:
            f.add("signed")
    return sorted(f)


def schema_text(c: scope.Case) -> Dict[str, str]:
    b = scope.make_batch([c])
    return {p.filename: print_proto(p)[0] for p in b.all_files()}


HISTORIES = (
    ("new", "set", "encode"),  # depth 0 (default)
    ("new", "new", "set", "encode"),  # a different instance exists first
    ("new", "set", "encode", "encode"),  # encode twice
    ("new", "decode_other", "set", "encode"),  # decode-into-self of another value, then assign
    ("other_class", "new", "set", "encode"),  # another class of the module used in between
    ("new_kwargs", "encode"),  # constructed through the dataclass constructor
    ("new", "set_members", "encode"),  # enum fields assigned as IntEnum members
    ("decode_first",),  # the very first use of the class is a decode
)


def run_unit(unit) -> Dict[str, Any]:
    pid, tier, idxs = unit
    sp = space(tier)
    cases = [sp[i] for i in idxs]
    out = UnitOut()
    with Scratch() as sc:
        _run_batch(pid, tier, cases, sc, out)
    return out.result()


def default_or_explains(leaves, expected, got) -> bool:
    """True when every differing leaf is an enum whose first declared member is non-zero and
    the decoded value is (encoded value | that member) - the signature of finding N3."""
    diff = False
    for l, e, g in zip(leaves, expected, got):
        if e != g:
            diff = True
            if not (l.kind == "enum" and l.enum.members and l.enum.members[0][1] != 0 and g == (e | l.enum.members[0][1])):
                return False
    return diff


def _viol(out, pid, check, symptom, site, c, lay, desc, detail, vec=None, extra=None, more=()):
    out.violation(check=check, symptom=symptom, site=site, features=case_features(c, lay) + list(more),
                  desc="%s :: %s" % (c.desc, desc), detail=detail,
                  schema=schema_text(c), value=vec,
                  replay=dict(kind="pycodec", pid=pid, case=pack(c), vec=vec, extra=extra))


def _load(cases, sc, sub):
    d = sc.sub(sub)
    batch = scope.make_batch(cases)
    ms, parsed, _ = compile_py(batch, d)
    return ms


def _run_batch(pid, tier, cases, sc: Scratch, out: UnitOut, depth=0):
    try:
        with watchdog(120):
            ms = _load(cases, sc, "b%d_%d" % (depth, id(cases) & 0xFFFF))
    except Exception as e:
        if len(cases) > 1:
            # isolate the offending state(s)
            for c in cases:
                _run_batch(pid, tier, [c], sc, out, depth + 1)
            return
        c = cases[0]
        lay = ref.layout(c.msg)
        out.count("states")
        _viol(out, pid, "pipeline", type(e).__name__, repo_site(e), c, lay,
              "schema the reference accepts failed to compile/import", exc_summary(e))
        return
    try:
        for c in cases:
            _run_case(pid, tier, c, ms.module, out)
        # object histories on freshly imported modules (F5)
        for hi, hist in enumerate(HISTORIES[1:] if pid != "C14" else (), 1):
            ms.unload()
            ms.load()
            for c in cases:
                _run_history(pid, tier, c, ms.module, hist, out, cases)
    finally:
        ms.unload()


def _values(c, leaves, tier):
    mode, vecs = values.value_space(leaves, vmax(tier))
    return mode, vecs


def _enc(obj):
    return bytes(obj.encode())


def _run_case(pid, tier, c: scope.Case, mod, out: UnitOut):
    lay = ref.layout(c.msg)
    leaves = [l for l in lay if l.is_value]
    mode, vecs = _values(c, leaves, tier)
    out.count("states")
    out.cls("mode:" + mode)
    for f in case_features(c, lay):
        if f.startswith(("enum", "wrap:", "place:", "extensible", "signed", "numbers_not")):
            out.cls(f)
    cls = getattr(mod, c.msg.name, None)
    if cls is None:
        _viol(out, pid, "pipeline", "MissingClass", "generated", c, lay, "generated module has no class %s" % c.msg.name, "")
        return
    nb = ref.nbytes(c.msg)
    if pid in ENC_PIDS and getattr(cls, "BYTES_LENGTH", None) != nb:
        _viol(out, pid, "bytes_length", "mismatch", "generated:BYTES_LENGTH", c, lay,
              "BYTES_LENGTH=%r expected %d" % (getattr(cls, "BYTES_LENGTH", None), nb), "")
    first = True
    for vec in vecs:
        expect = ref.encode(c.msg, vec, lay)
        out.count("transitions", 2)
        nontrivial = any(vec) and len(lay) > 1
        if pid in ENC_PIDS:
            try:
                with watchdog(10):
                    o = cls()
                    set_vec(o, leaves, vec)
                    got = _enc(o)
            except Exception as e:
                _viol(out, pid, "encode", type(e).__name__, repo_site(e), c, lay, "encode raised", exc_summary(e), vec)
                out.count("evaluations")
                continue
            out.count("evaluations")
            out.count("traces")
            if nontrivial:
                out.count("nontrivial")
            out.outcome(got)
            if got != expect:
                _viol(out, pid, "encode", "wrong_bytes", "lib/py/bitprotolib/bp.py:encode", c, lay,
                      "vec=%s expected=%s got=%s" % (vec, expect.hex(), got.hex()),
                      "expected %s\nobserved %s" % (expect.hex(), got.hex()), vec)
            if first:
                out.sample(dict(schema=schema_text(c)[scope.make_batch([c]).filename][-400:], value=vec,
                                expected_bytes=expect.hex(), observed_bytes=got.hex(), mode=mode))
                first = False
        if pid in DEC_PIDS:
            try:
                with watchdog(10):
                    m2 = cls()
                    m2.decode(bytearray(expect))
                    back = get_vec(m2, leaves)
                    again = _enc(m2)
            except Exception as e:
                _viol(out, pid, "decode", type(e).__name__, repo_site(e), c, lay, "decode/re-encode raised", exc_summary(e), vec)
                out.count("evaluations")
                continue
            out.count("evaluations")
            out.count("traces")
            if nontrivial:
                out.count("nontrivial")
            out.outcome(tuple(back))
            if back != list(vec):
                bad = [(l.path, v, b) for l, v, b in zip(leaves, vec, back) if v != b][:4]
                _viol(out, pid, "decode", "wrong_value", "lib/py/bitprotolib/bp.py:decode", c, lay,
                      "vec=%s decoded=%s" % (vec, back), "first differing leaves (path, encoded, decoded): %r" % (bad,), vec,
                      more=["explained_by:enum_default_or"] if default_or_explains(leaves, vec, back) else [])
            elif again != expect:
                _viol(out, pid, "reencode", "wrong_bytes", "lib/py/bitprotolib/bp.py:encode", c, lay,
                      "vec=%s bytes=%s re-encoded=%s" % (vec, expect.hex(), again.hex()), "", vec)
            # round trip through the implementation's own encoder as well
            try:
                with watchdog(10):
                    o = cls()
                    set_vec(o, leaves, vec)
                    b1 = _enc(o)
                    m3 = cls()
                    m3.decode(bytearray(b1))
                    back3 = get_vec(m3, leaves)
                out.count("transitions", 2)
                if back3 != list(vec):
                    _viol(out, pid, "roundtrip", "wrong_value", "lib/py/bitprotolib/bp.py:decode", c, lay,
                          "vec=%s decode(encode(v))=%s" % (vec, back3), "", vec,
                          more=["explained_by:enum_default_or"] if default_or_explains(leaves, vec, back3) else [])
            except Exception as e:
                _viol(out, pid, "roundtrip", type(e).__name__, repo_site(e), c, lay, "encode/decode raised", exc_summary(e), vec)
            if first:
                out.sample(dict(schema=schema_text(c)[scope.make_batch([c]).filename][-400:], value=vec,
                                bytes=expect.hex(), decoded=back, reencoded=again.hex(), mode=mode))
                first = False


def _hist_values(leaves):
    b = values.basis(leaves)
    pick = [b[0]]
    if len(b) > 1:
        pick.append(b[1])
    if len(b) > 2:
        pick.append(b[-1])
    if len(b) > 4:
        pick.append(b[len(b) // 2])
    return pick


def _run_history(pid, tier, c, mod, hist, out, cases):
    lay = ref.layout(c.msg)
    leaves = [l for l in lay if l.is_value]
    if values.has_enum_without_members(leaves):
        return
    cls = getattr(mod, c.msg.name, None)
    if cls is None:
        return
    other = None
    for oc in cases:
        if oc.msg.name != c.msg.name:
            other = getattr(mod, oc.msg.name, None)
            break
    vecs = _hist_values(leaves)
    for vi, vec in enumerate(vecs):
        other_vec = vecs[(vi + 1) % len(vecs)]
        expect = ref.encode(c.msg, vec, lay)
        out.count("histories")
        out.count("transitions", len(hist))
        try:
            with watchdog(10):
                got = _play(hist, cls, other, leaves, vec, other_vec, c, lay, expect, pid)
        except Exception as e:
            _viol(out, pid, "history", type(e).__name__, repo_site(e), c, lay,
                  "history %s raised" % (hist,), exc_summary(e), vec, extra=dict(history=hist))
            continue
        out.count("evaluations")
        out.count("traces")
        if got is not None:
            _viol(out, pid, "history", got[0], "history", c, lay, "history %s vec=%s: %s" % (hist, vec, got[1]), got[1], vec,
                  extra=dict(history=hist), more=["explained_by:enum_default_or"] if (len(got) > 2 and got[2]) else [])


def _play(hist, cls, other, leaves, vec, other_vec, c, lay, expect, pid):
    """Execute one object history; returns None or (symptom, detail)."""
    o = None
    last = None
    for ev in hist:
        if ev == "new":
            o = cls()
        elif ev == "new_kwargs":
            tops = {}
            # only messages whose value leaves are direct scalar fields can be fully given by kwargs
            o = cls()
            kw = {}
            for l, v in zip(leaves, vec):
                if len(l.path) == 1:
                    kw[l.path[0][1]] = bool(v) if l.kind == "bool" else int(v)
            o = cls(**kw)
            for l, v in zip(leaves, vec):
                if len(l.path) != 1:
                    set_leaf(o, l, v)
        elif ev == "set":
            set_vec(o, leaves, vec)
        elif ev == "set_members":
            for l, v in zip(leaves, vec):
                cur = get_leaf(o, l)
                if l.kind == "enum" and isinstance(cur, enum.IntEnum):
                    steps = l.path
                    holder = o
                    for kind, key in steps[:-1]:
                        holder = getattr(holder, key) if kind == "f" else holder[key]
                    member = type(cur)(v)
                    if steps[-1][0] == "f":
                        setattr(holder, steps[-1][1], member)
                    else:
                        holder[steps[-1][1]] = member
                else:
                    set_leaf(o, l, v)
        elif ev == "encode":
            last = bytes(o.encode())
            if pid == "C01" and last != expect:
                return ("wrong_bytes", "expected %s observed %s" % (expect.hex(), last.hex()))
            if pid == "C02":
                m2 = cls()
                m2.decode(bytearray(last))
                back = get_vec(m2, leaves)
                if back != list(vec):
                    return ("wrong_value", "decoded %s" % (back,), default_or_explains(leaves, vec, back))
        elif ev == "decode_other":
            try:
                o.decode(bytearray(ref.encode(c.msg, other_vec, lay)))
            except Exception:
                if pid == "C01":
                    return None  # a failing decode is C02's business; the history ends here
                raise
        elif ev == "other_class":
            if other is not None:
                x = other()
                x.encode()
                y = other()
                y.decode(bytearray(x.BYTES_LENGTH))
        elif ev == "decode_first":
            if pid == "C01":
                return None  # decode-only history: owned by C02
            o = cls()
            o.decode(bytearray(expect))
            back = get_vec(o, leaves)
            if pid == "C02" and back != list(vec):
                return ("wrong_value", "first-use decode gave %s" % (back,), default_or_explains(leaves, vec, back))
            again = bytes(o.encode())
            if again != expect:
                return ("wrong_bytes", "first-use decode then encode: expected %s observed %s" % (expect.hex(), again.hex()))
        else:
            raise ValueError(ev)
    return None


def units(pid, tier):
    sp = space(tier)
    idx = list(range(len(sp)))
    return [(pid, tier, idx[i:i + BATCH]) for i in range(0, len(idx), BATCH)]


def guards(pid, acc: Acc):
    g = []
    need = ["enum_width>8", "enum_straddles_byte", "enum_first_nonzero", "signed", "extensible",
            "wrap:arr_ext", "wrap:arr2d", "place:libp", "place:liba", "place:nested", "place:libp_nested",
            "numbers_not_in_decl_order", "mode:EXH", "mode:BASIS"]
    for n in need:
        if acc.classes.get(n, 0) < 1:
            g.append("no state of class %s" % n)
    return g


def main(pid: str, tier: str) -> int:
    t0 = time.time()
    us = units(pid, tier)
    acc = Acc()
    acc.merge(run_units(us, run_unit))
    c = acc.counters
    cov = dict(
        states=c["states"], transitions=c["transitions"], traces_validated_against_impl=c["traces"],
        evaluations=c["evaluations"], distinct_nontrivial=c["nontrivial"],
        histories=c["histories"],
        rule="states = canonical schemas of SING u COMB u TREE (names normalised, duplicates merged); per state the "
             "value space is EXH (all assignments) when it has <= 2^%d points and the complete bit BASIS otherwise; "
             "non-trivial = some value bit set and more than one leaf/prefix in the layout; distinct by (schema, value) "
             "construction; object histories: %d event sequences per state on freshly imported modules" % (vmax(tier), len(HISTORIES)),
        exhaustive=True,
        bound="SING(%s) u COMB(2; thorough 3) u TREE(%d) u HOMONYMS, Vmax=%d, history deviations=%d" % (tier, 4 if tier == "quick" else 5, vmax(tier), len(HISTORIES) - 1),
        scope_sizes=dict(total_states=len(space(tier))),
    )
    return finish(pid, tier, acc, cov, t0,
                  assumptions=["reference model bpmc/ref.py (anchored by bpmc.setup)", "CPython executes generated code faithfully"],
                  guards=guards(pid, acc))


def replay(payload) -> int:
    """Re-execute one recorded case without the explorer."""
    bind.bind()
    r = payload["replay"]
    c = unpack(r["case"])
    pid = r["pid"]
    out = UnitOut()
    with Scratch() as sc:
        ms = _load([c], sc, "replay")
        lay = ref.layout(c.msg)
        leaves = [l for l in lay if l.is_value]
        vec = r.get("vec")
        if vec is None:
            _run_case(pid, "quick", c, ms.module, out)
        else:
            cls = getattr(ms.module, c.msg.name)
            hist = (r.get("extra") or {}).get("history") or HISTORIES[0]
            expect = ref.encode(c.msg, vec, lay)
            try:
                got = _play(tuple(hist), cls, None, leaves, vec, vec, c, lay, expect, pid)
            except Exception as e:
                got = (type(e).__name__, exc_summary(e))
            if got is None and pid == "C02":
                try:
                    m2 = cls()
                    m2.decode(bytearray(expect))
                    back = get_vec(m2, leaves)
                    if back != list(vec) or bytes(m2.encode()) != expect:
                        got = ("wrong_value", "decoded %s" % (back,))
                except Exception as e:
                    got = (type(e).__name__, exc_summary(e))
            if got is not None:
                print("REPRODUCED: %s %s" % tuple(got[:2]))
                return 1
        ms.unload()
    if out.violations:
        print("REPRODUCED: %s" % out.violations[0].get("desc"))
        return 1
    print("NOT REPRODUCED")
    return 0
