"""C18: compilation is deterministic.

(a) exhaustive exploration of in-process operation histories: all sequences of length <= k over
    an alphabet of 12 compile/parse/lint events, executed in ONE process each (the process
    state after a prefix is snapshotted with fork(), so every history is a real single-process
    execution); after every compile event the produced files must equal the fresh-process golden.
(b) fresh-process matrix: PYTHONHASHSEED x cwd x path form x outdir form x -q.
"""
import hashlib
import io
import itertools
import json
import os
import shutil
import subprocess
import sys
import time

from .. import bind
from ..evidence import finish
from ..explore import Acc, UnitOut, exc_summary, run_units
from ..pyback import Scratch

PID = "C18"

LIB = "proto shared\n\nenum Mode : uint2 {\n    MODE_OFF = 0\n    MODE_ON = 1\n}\n\nmessage Point {\n    int7 x = 1\n    int7 y = 2\n}\n"

SCHEMAS = {
    # S1 / S2 share every name and differ in one width: any name-keyed cache collides
    "s1": "proto dup\n\nenum Color : uint3 {\n    COLOR_B = 1\n    COLOR_A = 0\n}\n\ntype Stamp = int24\n\nmessage Pen {\n    Color c = 1\n    Stamp t = 2\n    uint5 w = 3\n    message Cap {\n        bool on = 1\n    }\n    Cap cap = 4\n}\n",
    "s2": "proto dup\n\nenum Color : uint3 {\n    COLOR_B = 1\n    COLOR_A = 0\n}\n\ntype Stamp = int24\n\nmessage Pen {\n    Color c = 1\n    Stamp t = 2\n    uint6 w = 3\n    message Cap {\n        bool on = 1\n    }\n    Cap cap = 4\n}\n",
    # S3 / S4 share an imported file
    "s3": "proto usera\n\nimport \"shared.bitproto\"\n\nmessage A {\n    shared.Mode m = 1\n    shared.Point[2] ps = 2\n}\n",
    "s4": "proto userb\n\nimport sh \"shared.bitproto\"\n\nconst N = 3\n\nmessage B {\n    sh.Point p = 1\n    sh.Mode[N] ms = 2\n    uint13 tail = 3\n}\n",
    # S5: line 1 is a comment directly followed by the proto statement; S6: first statement before any blank line
    "s5": "// Schema five: telemetry frames.\nproto five\nmessage F {\n    uint3 a = 1\n}\n",
    "s6": "proto six\n// about G\nmessage G' {\n    byte[3] raw = 1\n    int9[2]' v = 2\n}\n",
    # s7: a parse error in the middle of a message after a pending comment; s8: the error is raised inside an IMPORTED file
    "s7": "proto seven\n// pending comment\nmessage H {\n    uint3 a = 1\n    // another pending comment\n    Nope b = 2\n}\n",
    "s8": "proto eight\n\nimport \"broken.bitproto\"\n\nmessage I {\n    bool a = 1\n}\n",
}
# a second directory: files with the SAME base names (and proto names) as s1 / s3 / shared but other contents -
# anything remembered per file name or proto name instead of per file collides
ALT = {
    # ... and considerably LONGER output than s1's (an older, longer file of the same name is what a reused output directory holds)
    "alt/s1": SCHEMAS["s2"].replace("uint6 w = 3", "uint7 w = 3") + "\nmessage Extra {\n    uint9[3] xs = 1\n    Pen pen = 2\n    Color[2] cs = 3\n    int33 big = 4\n}\n",
    "alt/s3": SCHEMAS["s3"],
    "alt/shared": LIB.replace("int7 y = 2", "int9 y = 2\n    bool z = 3"),
}
# s9: FOUR imports, several nested definitions, constants and enums - any unordered collection (set / dict keyed by hash)
# that reaches the output shows up across hash seeds only when it holds several elements
MANY = {
    "units": "proto units\n\nconst UNIT_SCALE = 10\n\ntype Meter = int24\n",
    "status": "proto status\n\nenum State : uint3 {\n    STATE_IDLE = 0\n    STATE_BUSY = 1\n    STATE_DOWN = 5\n}\n",
    "geometry": "proto geometry\n\nmessage Vec {\n    int12 dx = 1\n    int12 dy = 2\n}\n",
    "s9": "proto station\n\nimport \"units.bitproto\"\nimport \"status.bitproto\"\nimport \"geometry.bitproto\"\nimport \"shared.bitproto\"\n\n"
          "const SLOTS = 3\nconst LABEL = \"st\"\nconst ENABLED = true\n\nenum Kind : uint2 {\n    KIND_A = 0\n    KIND_B = 1\n    KIND_C = 2\n}\n\n"
          "type Ids = uint9[SLOTS]\n\nmessage Station {\n    enum Level : uint2 {\n        LEVEL_LOW = 0\n        LEVEL_HIGH = 1\n    }\n"
          "    message Dock {\n        bool busy = 1\n        units.Meter len = 2\n    }\n    message Mast {\n        uint5 h = 1\n    }\n"
          "    message Tank {\n        uint7 fill = 1\n    }\n    Kind kind = 1\n    Level level = 2\n    Dock[SLOTS] docks = 3\n    Mast mast = 4\n"
          "    Tank tank = 5\n    status.State state = 6\n    geometry.Vec pos = 7\n    shared.Point origin = 8\n    shared.Mode mode = 9\n    Ids ids = 10\n}\n",
}
MATRIX_EXTRA = [("compile", "s9", "c", False), ("compile", "s9", "py", False), ("compile", "s9", "go", False), ("compile", "s9", "c", True)]
BROKEN = "proto broken\n// comment before the failing statement\nmessage B {\n    message Deep {\n        uint0 x = 1\n    }\n}\n"

EVENTS = [
    ("compile", "s1", "c", False), ("compile", "s1", "py", False), ("compile", "s2", "c", False), ("compile", "s2", "py", False),
    ("compile", "s3", "go", False), ("compile", "s4", "c", True), ("compile", "s1", "go", False), ("compile", "s5", "py", False),
    ("compile", "s6", "c", False), ("parse", "s2", None, False), ("lint", "s3", None, False), ("compile", "s4", "go", True),
    ("fail", "s7", "py", False), ("fail", "s8", "c", False),
    ("compile", "alt/s1", "c", False), ("compile", "alt/s3", "c", False),
]


def write_schemas(d):
    for n, t in SCHEMAS.items():
        with open(os.path.join(d, n + ".bitproto"), "w") as f:
            f.write(t)
    with open(os.path.join(d, "shared.bitproto"), "w") as f:
        f.write(LIB)
    with open(os.path.join(d, "broken.bitproto"), "w") as f:
        f.write(BROKEN)
    for n, t in MANY.items():
        with open(os.path.join(d, n + ".bitproto"), "w") as f:
            f.write(t)
    os.makedirs(os.path.join(d, "alt"), exist_ok=True)
    for n, t in ALT.items():
        with open(os.path.join(d, n + ".bitproto"), "w") as f:
            f.write(t)


def hash_dir(d):
    out = {}
    for f in sorted(os.listdir(d)):
        if "_bp." in f:
            with open(os.path.join(d, f), "rb") as fh:
                out[f] = hashlib.sha256(fh.read()).hexdigest()
    return out


def golden(d, ev, env_extra=None, cwd=None, path=None, outdir=None, quiet=True):
    """Fresh process: the real CLI."""
    _, s, lang, opt = ev
    out = outdir or os.path.join(d, "golden_%s_%s_%s" % (s.replace("/", "_"), lang, opt))
    os.makedirs(out if os.path.isabs(out) else os.path.join(cwd or d, out), exist_ok=True)
    args = [sys.executable, "-m", "bitproto._main", lang, path or os.path.join(d, s + ".bitproto"), out]
    if quiet:
        args.append("-q")
    if opt:
        args.append("-O")
    env = dict(os.environ, PYTHONPATH=bind.COMPILER_DIR)
    env.pop("PYTHONHASHSEED", None)
    env.update(env_extra or {})
    r = subprocess.run(args, cwd=cwd or d, capture_output=True, text=True, env=env, timeout=120)
    if r.returncode != 0:
        raise bind.InfraError("golden compile failed: %s %s" % (args, r.stderr[-300:]))
    return hash_dir(out if os.path.isabs(out) else os.path.join(cwd or d, out))


def do_event(d, ev, k, hist=None):
    """Execute one event in THIS process. Returns hashes for compile events, else None.
    The OUTPUT DIRECTORY is part of the history: every compile event of a history writes into a directory that starts as a copy of
    the directory its predecessors wrote into (older, possibly longer files of the same names are already there)."""
    import bitproto._main as M
    from bitproto.linter import lint
    from bitproto.parser import parse
    kind, s, lang, opt = ev
    path = os.path.join(d, s + ".bitproto")
    old = sys.stderr
    sys.stderr = io.StringIO()
    try:
        if kind == "parse":
            parse(path)
            return None
        if kind == "lint":
            lint(parse(path))
            return None
        if kind == "fail":
            # an invalid schema: the compilation must fail with a parser error and leave nothing behind
            from bitproto.errors import ParserError
            try:
                parse(path)
            except ParserError:
                return None
            raise RuntimeError("invalid schema %s was accepted" % s)
        hist = list(hist or [k])
        out = os.path.join(d, "out_" + "_".join(map(str, hist)))
        parent = os.path.join(d, "out_" + "_".join(map(str, hist[:-1]))) if len(hist) > 1 else None
        # nearest ancestor that compiled something
        anc = list(hist[:-1])
        while anc and not os.path.isdir(os.path.join(d, "out_" + "_".join(map(str, anc)))):
            anc.pop()
        if anc:
            shutil.copytree(os.path.join(d, "out_" + "_".join(map(str, anc))), out)
        else:
            os.makedirs(out, exist_ok=True)

        def fake_fatal(msg="", code=1):
            raise RuntimeError("fatal: %s" % msg)

        saved = M.fatal
        M.fatal = fake_fatal
        try:
            M.main(path, lang=lang, outdir=out, disable_linter=(k % 2 == 0), enable_optimize=opt)
        finally:
            M.fatal = saved
        return hash_dir(out)  # the caller compares the files this event is responsible for
    finally:
        sys.stderr = old


def explore(d, goldens, prefix, depth, wfd):
    """Depth-first over event histories; the process state after `prefix` is this process.
    Each child is a fork (snapshot) that executes one more event, reports, and recurses."""
    for ei, ev in enumerate(EVENTS):
        pid = os.fork()
        if pid == 0:
            rec = dict(hist=prefix + [ei], ok=True)
            try:
                h = do_event(d, ev, len(prefix), prefix + [ei])
                if h is not None and any(h.get(f) != x for f, x in goldens[ei].items()):
                    rec["ok"] = False
                    rec["diff"] = sorted(f for f in goldens[ei] if h.get(f) != goldens[ei].get(f))
            except BaseException as e:  # noqa
                rec["ok"] = False
                rec["error"] = "%s: %s" % (type(e).__name__, str(e)[:300])
            os.write(wfd, (json.dumps(rec) + "\n").encode())
            if depth > 1 and rec["ok"]:
                explore(d, goldens, prefix + [ei], depth - 1, wfd)
            os._exit(0)
        else:
            os.waitpid(pid, 0)


def run_hist(unit):
    _, tier, first = unit
    bind.bind()
    import bitproto._main  # noqa: loaded before the first fork so that histories start from "modules imported, nothing compiled"
    import bitproto.linter  # noqa
    depth = 3 if tier == "quick" else 4
    out = UnitOut()
    with Scratch() as sc:
        d = sc.dir
        write_schemas(d)
        goldens = {}
        for ei, ev in enumerate(EVENTS):
            if ev[0] == "compile":
                goldens[ei] = golden(d, ev)
        out.count("goldens", len(set(json.dumps(g, sort_keys=True) for g in goldens.values())))
        rfd, wfd = os.pipe()
        pid = os.fork()
        if pid == 0:
            os.close(rfd)
            # the history starts with event `first`
            rec = dict(hist=[first], ok=True)
            try:
                h = do_event(d, EVENTS[first], 0, [first])
                if h is not None and any(h.get(f) != x for f, x in goldens[first].items()):
                    rec["ok"] = False
                    rec["diff"] = sorted(f for f in goldens[first] if h.get(f) != goldens[first].get(f))
            except BaseException as e:  # noqa
                rec["ok"] = False
                rec["error"] = "%s: %s" % (type(e).__name__, str(e)[:300])
            os.write(wfd, (json.dumps(rec) + "\n").encode())
            if rec["ok"] and depth > 1:
                explore(d, goldens, [first], depth - 1, wfd)
            os._exit(0)
        os.close(wfd)
        buf = b""
        while True:
            chunk = os.read(rfd, 65536)
            if not chunk:
                break
            buf += chunk
        os.close(rfd)
        os.waitpid(pid, 0)
        for line in buf.decode().splitlines():
            rec = json.loads(line)
            out.count("states")
            out.count("transitions")
            out.count("evaluations")
            out.count("traces")
            if len(rec["hist"]) > 1:
                out.count("nontrivial")
            out.outcome(tuple(rec["hist"][-1:]), rec["ok"])
            if not rec["ok"]:
                hist = [EVENTS[i] for i in rec["hist"]]
                out.violation(check="history", symptom="output_differs_from_fresh_process" if "diff" in rec else "event_failed",
                              site="process state", features=["len:%d" % len(hist)], sig_features=[str(hist[-1]), str(hist[0])],
                              desc="in one process: %s -> files %s differ from the fresh-process golden %s" % (
                                  " ; ".join("%s(%s,%s%s)" % (e[0], e[1], e[2], " -O" if e[3] else "") for e in hist), rec.get("diff"), rec.get("error", "")),
                              schema={k + ".bitproto": v for k, v in SCHEMAS.items()}, replay=dict(kind="c18-hist", hist=rec["hist"]))
        out.sample(dict(kind="history", first_event=list(map(str, EVENTS[first])), depth=depth))
    return out.result()


def run_matrix(unit):
    _, tier, evs = unit
    out = UnitOut()
    with Scratch() as sc:
        base = sc.sub("base")
        write_schemas(base)
        for ei in evs:
            ev = (EVENTS + MATRIX_EXTRA)[ei]
            if ev[0] != "compile":
                continue
            ref_h = golden(base, ev, env_extra={"PYTHONHASHSEED": "0"})
            seeds = ["0", "1", "2", "4242", "random"]
            k = 0
            for seed, cwdk, pathk, outk, quiet in itertools.product(seeds, ("schema", "root", "sibling"), ("rel", "abs", "dotdot"), ("rel", "abs"), (True, False)):
                k += 1
                if tier == "quick" and (k + ei) % 3 != 0 and not (ei >= len(EVENTS) and cwdk == "schema" and pathk == "rel" and outk == "rel" and quiet):
                    continue  # (s9 runs under every hash seed also in quick)
                work = sc.sub("m%d_%d" % (ei, k))
                sd = os.path.join(work, "schemas")
                os.makedirs(sd)
                write_schemas(sd)
                sib = os.path.join(work, "sibling")
                os.makedirs(sib)
                cwd = {"schema": sd, "root": "/", "sibling": sib}[cwdk]
                fn = ev[1] + ".bitproto"
                ap = os.path.join(sd, fn)
                if pathk == "abs":
                    path = ap
                elif pathk == "rel":
                    path = os.path.relpath(ap, cwd)
                else:
                    path = os.path.join(os.path.relpath(sd, cwd), "..", "schemas", fn)
                outabs = os.path.join(work, "out")
                os.makedirs(outabs)
                outdir = outabs if outk == "abs" else os.path.relpath(outabs, cwd)
                try:
                    h = golden(sd, ev, env_extra={"PYTHONHASHSEED": seed}, cwd=cwd, path=path, outdir=outdir, quiet=quiet)
                except bind.InfraError as e:
                    out.violation(check="matrix", symptom="compile_failed", site="cli", features=[], desc="seed=%s cwd=%s path=%s outdir=%s: %s" % (seed, cwdk, pathk, outk, e))
                    continue
                out.count("states")
                out.count("transitions")
                out.count("evaluations")
                out.count("traces")
                out.count("nontrivial")
                out.count("fresh_process_runs")
                out.outcome(ei, json.dumps(h, sort_keys=True))
                if h != ref_h:
                    out.violation(check="matrix", symptom="output_differs_between_processes", site="environment", features=[],
                                  sig_features=[str(ev)], desc="%s: PYTHONHASHSEED=%s cwd=%s path form=%s outdir form=%s quiet=%s: files %s differ" % (
                                      ev, seed, cwdk, pathk, outk, quiet, sorted(f for f in set(h) | set(ref_h) if h.get(f) != ref_h.get(f))),
                                  schema={k2 + ".bitproto": v for k2, v in SCHEMAS.items()}, replay=dict(kind="c18-matrix", ev=ei))
                shutil.rmtree(work, ignore_errors=True)
        out.sample(dict(kind="matrix", events=[list(map(str, (EVENTS + MATRIX_EXTRA)[e])) for e in evs]))
    return out.result()


def dispatch(unit):
    return run_hist(unit) if unit[0] == "H" else run_matrix(unit)


def units(tier):
    us = [("H", tier, k) for k in range(len(EVENTS))]
    comp = [k for k, e in enumerate(EVENTS) if e[0] == "compile"]
    us += [("M", tier, [k]) for k in comp]
    us += [("M", tier, [len(EVENTS) + k]) for k in range(len(MATRIX_EXTRA))]
    return us


def main(pid, tier):
    t0 = time.time()
    acc = Acc()
    acc.merge(run_units(units(tier), dispatch, maxtasks=1))
    c = acc.counters
    depth = 3 if tier == "quick" else 4
    expect = sum(len(EVENTS) ** k for k in range(1, depth + 1))
    g = []
    if c["states"] - c["fresh_process_runs"] != expect:
        g.append("histories executed %d, expected %d" % (c["states"] - c["fresh_process_runs"], expect))
    if c["goldens"] < 2 * len(EVENTS) // 2:
        pass
    cov = dict(states=c["states"], transitions=c["transitions"], traces_validated_against_impl=c["traces"], evaluations=c["evaluations"],
               distinct_nontrivial=c["nontrivial"], histories=c["states"] - c["fresh_process_runs"], fresh_process_runs=c["fresh_process_runs"],
               event_alphabet=[" ".join(map(str, e)) for e in EVENTS],
               rule="(a) every sequence of length <= %d over the %d-event alphabet (schemas forced to collide: identical names differing in one width, a "
                    "shared imported file, leading comments) executed in one process - the state after each prefix is snapshotted by fork() - and every "
                    "compile event's files compared (sha256) with the golden produced by a fresh CLI process; (b) fresh-process matrix PYTHONHASHSEED "
                    "{0,1,2,4242,random} x cwd {schema dir, /, sibling} x path form {relative, absolute, with ..} x outdir {relative, absolute} x -q; "
                    "non-trivial = history of length >= 2 / any matrix run" % (depth, len(EVENTS)),
               exhaustive=True, bound="history length <= %d over %d events (%d histories)" % (depth, len(EVENTS), expect))
    return finish(PID, tier, acc, cov, t0, assumptions=["fork() snapshots the interpreter state exactly", "the output directory of a history is modelled by copying the predecessor's directory"], guards=g)


def replay(payload):
    bind.bind()
    r = payload["replay"]
    if r["kind"] == "c18-hist":
        import bitproto._main  # noqa
        with Scratch() as sc:
            d = sc.dir
            write_schemas(d)
            for k, ei in enumerate(r["hist"]):
                ev = EVENTS[ei]
                h = do_event(d, ev, k, r["hist"][:k + 1])
                g = golden(d, ev) if h is not None else None
                if h is not None and any(h.get(f) != x for f, x in g.items()):
                    print("REPRODUCED: after %s the output of %s differs from a fresh process" % ([EVENTS[i] for i in r["hist"][:k]], ev))
                    return 1
        print("NOT REPRODUCED")
        return 0
    res = run_matrix(("M", "thorough", [r["ev"]]))
    if res.get("violations"):
        print("REPRODUCED: %s" % res["violations"][0]["desc"])
        return 1
    print("NOT REPRODUCED")
    return 0
