"""C11: names resolve to the innermost visible earlier definition.

A scope skeleton file > A > B > C plus an imported file (plain and `as`) that itself contains
A > B.  For a name X every combination of declaration sites (per scope: none / before the use
/ after the use) is populated with an enum of a *distinct bit width*, and a use site is placed
in each scope; dotted paths select nested and imported definitions, including a nested message
that carries the name of an import.  Oracle: an independent resolver over the model."""
import itertools
import os
import re
import time

from .. import bind
from ..evidence import finish
from ..explore import Acc, UnitOut, exc_summary, repo_site, run_units
from ..pyback import Scratch, quiet_stderr, watchdog

PID = "C11"


# ------------------------------------------------------------------ model of a schema
class Sc:
    def __init__(self, name, kind="msg"):
        self.name = name
        self.kind = kind
        self.items = []  # ("enum", name, width) | ("msg", Sc) | ("use", dotted, field name, number) | ("const", name, value)
        self.parent = None

    def add(self, it):
        if it[0] == "msg":
            it[1].parent = self
        self.items.append(it)
        return self

    def member(self, name, upto=None):
        """Completed member declared in this scope (before item index `upto` if given)."""
        for k, it in enumerate(self.items):
            if upto is not None and k >= upto:
                break
            if it[0] == "enum" and it[1] == name:
                return it
            if it[0] == "msg" and it[1].name == name:
                return it
            if it[0] == "const" and it[1] == name:
                return it
            if it[0] == "import" and it[1] == name:
                return it
        return None


def follow(it, rest):
    """Follow the rest of a dotted path through complete scopes."""
    cur = it
    for n in rest:
        if cur[0] == "msg":
            nxt = cur[1].member(n)
        elif cur[0] == "import":
            nxt = cur[2].member(n)
        else:
            return None
        if nxt is None:
            return None
        cur = nxt
    return cur


def resolve(scope, index, dotted):
    """Innermost enclosing scope that declares the first component earlier; the rest of the
    path is followed through members.  Returns (definition item or None, corner?)."""
    names = dotted.split(".")
    corner = False
    s, upto = scope, index
    while s is not None:
        first = s.member(names[0], upto)
        if first is not None:
            d = follow(first, names[1:])
            if d is not None:
                return d, corner
            corner = True  # first component found here but the path does not continue: outward lookup is unspecified
        # position of s inside its parent
        p = s.parent
        if p is not None:
            upto = [k for k, it in enumerate(p.items) if it[0] == "msg" and it[1] is s][0]
        s = p
    return None, corner


def render(scope, depth=0, array=False):
    """array: the uses under test (fields f / f0) are written `<name>[2]` - two textually equal array types that must resolve separately."""
    ind = "    " * depth
    lines = []
    for it in scope.items:
        if it[0] == "enum":
            lines.append("%senum %s : uint%d {" % (ind, it[1], it[2]))
            lines.append("%s    %s_W%d_%s = 0" % (ind, it[1].upper(), it[2], (scope.name or "F").upper()))
            # a member with the top and the bottom bit of this definition's width set
            lines.append("%s    %s_W%d_%s_TOP = %d" % (ind, it[1].upper(), it[2], (scope.name or "F").upper(), ((1 << (it[2] - 1)) | 1) if it[2] > 1 else 1))
            lines.append("%s}" % ind)
        elif it[0] == "msg":
            lines.append("%smessage %s {" % (ind, it[1].name))
            lines.extend(render(it[1], depth + 1, array))
            lines.append("%s}" % ind)
        elif it[0] == "use":
            lines.append("%s%s%s %s = %d" % (ind, it[1], "[2]" if array and it[2] in ("f", "f0") else "", it[2], it[3]))
        elif it[0] == "const":
            lines.append("%sconst %s = %d" % (ind, it[1], it[2]))
        elif it[0] == "import":
            lines.append('import %s"%s.bitproto"' % ((it[1] + " ") if it[3] else "", it[2].name))
    return lines


def lib_model(name, widths):
    f = Sc(name, "file")
    f.add(("enum", "X", widths[0]))
    a = Sc("A")
    a.add(("enum", "X", widths[1]))
    b = Sc("B")
    b.add(("enum", "X", widths[2]))
    a.add(("msg", b))
    f.add(("msg", a))
    f.add(("const", "K", 5))
    return f


LIB = lib_model("lib", (21, 22, 23))
LIA = lib_model("lia", (31, 32, 33))


def lib_text(m):
    # each imported file has its own C name prefix: the C names of its definitions differ from the importer's homonyms
    return "proto %s\n\noption c.name_prefix = \"%s\"\n\n" % (m.name, "Q" + m.name) + "\n".join(render(m)) + "\n"


def py_roundtrip(main_path, outdir, class_names, width, array):
    """The Python back end's view, by execution: the field f must carry `width` bits (top and bottom bit set survive a round trip)."""
    from ..pyback import PyModuleSet, render_all_files
    render_all_files(main_path, "py", outdir)
    ms = PyModuleSet(outdir, "t")
    mod = ms.load()
    try:
        cls = getattr(mod, "_".join(class_names))
        o = cls()
        v = ((1 << (width - 1)) | 1) if width > 1 else 1
        if array:
            o.f[0], o.f[1] = v, 1
        else:
            o.f = v
        o2 = cls()
        o2.decode(o.encode())
        return v, (int(o2.f[0]) if array else int(o2.f))
    finally:
        ms.unload()


C_TYPEDEF = re.compile(r"^typedef \w+ (\w+); // (\d+)bit", re.M)
C_FIELD_F = re.compile(r"^\s+(\w+) f(?:\[\d+\])*;", re.M)


def c_width_of_field_f(main_path, outdir):
    """The C back end's view: the typedef named in the declaration of struct member `f`, and the width written next to that typedef
    (main header or an imported file's header).  Returns (type name, width or None)."""
    from ..cback import render_c_files
    texts = render_c_files(main_path, outdir)
    heads = "\n".join(t for n, t in texts.items() if n.endswith(".h"))
    widths = {}
    for name, w in C_TYPEDEF.findall(heads):
        widths.setdefault(name, set()).add(int(w))
    main_h = texts[[n for n in texts if n.endswith(".h") and n.startswith("t_")][0]]
    m = C_FIELD_F.search(main_h)
    if not m:
        return None, None
    ws = widths.get(m.group(1))
    return m.group(1), (ws.pop() if ws and len(ws) == 1 else None)


SITE_W = {("F", "b"): 1, ("A", "b"): 2, ("B", "b"): 3, ("C", "b"): 4, ("C", "a"): 5, ("B", "a"): 6, ("A", "a"): 7, ("F", "a"): 8}


def build(choice, use_scope, dotted, shadow_import=None, name="X", early=None, own_name_homonym=False):
    """choice: {scope letter: None|'b'|'a'} declaration of `name` before/after the use path.
    use_scope: 'C' | 'B' | 'A' | 'D' (a top-level message after A).
    shadow_import: (scope letter, width) -> a nested message named `lib` containing enum X."""
    f = Sc("", "file")
    f.add(("import", "lib", LIB, False))
    f.add(("import", "al", LIA, True))
    f.add(("const", "K", 2))
    f.add(("enum", "P", 1))  # every pad field performs a NAMED lookup (stale search paths after a closing brace)
    if own_name_homonym:
        # lia.bitproto is imported AS `al`; a local message that carries the imported file's own proto name is a different thing
        own = Sc(LIA.name)
        own.add(("enum", "X", 13))
        f.add(("msg", own))
    A, B, C, D = Sc("A"), Sc("B"), Sc("C"), Sc("D")

    def decl(letter, when, sc):
        if choice.get(letter) == when:
            sc.add(("enum", name, SITE_W[(letter, when)]))

    def shadow(letter, sc):
        if shadow_import and shadow_import[0] == letter:
            m = Sc("lib")
            m.add(("enum", "X", shadow_import[1]))
            sc.add(("msg", m))

    decl("F", "b", f)
    # an EARLY use of the same name at the very beginning of scope `early` (before that scope's own declaration):
    # it must see the outer definition, and the later use must see the inner one (lookups must not be remembered)
    if early == "A":
        A.add(("use", dotted, "f0", 9))
    if early == "B":
        B.add(("use", dotted, "f0", 9))
    if early == "C":
        C.add(("use", dotted, "f0", 9))
    decl("A", "b", A)
    shadow("A", A)
    decl("B", "b", B)
    shadow("B", B)
    decl("C", "b", C)
    if use_scope == "C":
        C.add(("use", dotted, "f", 1))
    else:
        C.add(("use", "P", "pad", 1))
    decl("C", "a", C)
    B.add(("msg", C))
    if use_scope == "B":
        B.add(("use", dotted, "f", 1))
    else:
        B.add(("use", "P", "pad", 1))
    decl("B", "a", B)
    A.add(("msg", B))
    if use_scope == "A":
        A.add(("use", dotted, "f", 1))
    else:
        A.add(("use", "P", "pad", 1))
    decl("A", "a", A)
    f.add(("msg", A))
    if use_scope == "D":
        D.add(("use", dotted, "f", 1))
        f.add(("msg", D))
    decl("F", "a", f)
    return f


def find_use(f, fname="f"):
    def rec(s):
        for k, it in enumerate(s.items):
            if it[0] == "use" and it[2] == fname:
                return s, k
            if it[0] == "msg":
                r = rec(it[1])
                if r:
                    return r
        return None

    return rec(f)


def cases(tier):
    out = []
    opts = (None, "b", "a")
    # (1) simple name X: every combination of sites x every use scope
    for combo in itertools.product(opts, repeat=4):
        choice = dict(zip("FABC", combo))
        for use in "CBAD":
            out.append(dict(kind="simple", choice=choice, use=use, dotted="X", shadow=None))
            if sum(1 for x in combo if x) >= 2:
                out.append(dict(kind="simple", choice=choice, use=use, dotted="X", shadow=None, array=True))
    # (2) dotted paths
    dotted_uses = [("A", "B.X"), ("A", "B.C.X"), ("B", "C.X"), ("D", "A.X"), ("D", "A.B.X"), ("D", "A.B.C.X"), ("C", "B.X"), ("C", "A.B.X"), ("B", "A.X"),
                   ("C", "lib.X"), ("B", "lib.A.X"), ("A", "lib.A.B.X"), ("D", "al.X"), ("C", "al.A.B.X"), ("D", "lia.X"), ("A", "lib.B.X"), ("D", "C.X")]
    sub = list(itertools.product(opts, repeat=4))
    if tier == "quick":
        sub = [c for c in sub if sum(1 for x in c if x) in (1, 2, 4)][::2] + [(None,) * 4]
    for combo in sub:
        choice = dict(zip("FABC", combo))
        for use, dotted in dotted_uses:
            out.append(dict(kind="dotted", choice=choice, use=use, dotted=dotted, shadow=None))
    # (3) a nested message carrying the name of an import shadows the import
    for letter in "AB":
        for use in ("C", "B", "A", "D"):
            for dotted in ("lib.X", "lib.A.X"):
                for combo in ((None,) * 4, ("b", None, None, None)):
                    out.append(dict(kind="shadow-import", choice=dict(zip("FABC", combo)), use=use, dotted=dotted, shadow=(letter, 11 if letter == "A" else 12)))
    # (3b) two uses of one name around a declaration in the same scope
    for early in "ABC":
        for use in "CBAD":
            for outer in ("F", "A"):
                if outer == early:
                    continue
                for dotted in ("X", "B.X", "A.X") if tier == "thorough" else ("X",):
                    choice = dict(zip("FABC", (None,) * 4))
                    choice[outer] = "b"
                    choice[early] = "b"
                    out.append(dict(kind="two-uses", choice=choice, use=use, dotted=dotted, shadow=None, early=early))
                    if dotted == "X":
                        out.append(dict(kind="two-uses", choice=choice, use=use, dotted=dotted, shadow=None, early=early, array=True))
    # (3c) `import al "lia.bitproto"` next to a local message named `lia`: al.* is the imported file, lia.* the local message
    for use in "CBAD":
        for dotted in ("al.X", "al.A.X", "al.A.B.X", "lia.X", "lib.X"):
            out.append(dict(kind="as-homonym", choice=dict(zip("FABC", (None,) * 4)), use=use, dotted=dotted, shadow=None, own_name_homonym=True))
    # (4) constants as capacities
    for use in "CBAD":
        for dotted in ("K", "lib.K", "al.K", "KL", "lib.KX"):
            out.append(dict(kind="const", choice={}, use=use, dotted=dotted, shadow=None))
    return out


def materialise(case):
    if case["kind"] == "const":
        f = build({}, case["use"], "bool[%s]" % case["dotted"])
        f.add(("const", "KL", 9))  # declared after every use
    else:
        f = build(case["choice"], case["use"], case["dotted"], case["shadow"], early=case.get("early"), own_name_homonym=bool(case.get("own_name_homonym")))
    text = "proto t\n\n" + "\n".join(render(f, array=bool(case.get("array")))) + "\n"
    return f, text


def run_unit(unit):
    _, tier, lo, hi = unit
    bind.bind()
    from bitproto.errors import ParserError, ReferencedConstantNotDefined, ReferencedTypeNotDefined
    from bitproto.parser import parse
    cs = cases(tier)[lo:hi]
    out = UnitOut()
    with Scratch() as sc:
        d = sc.dir
        for m in (LIB, LIA):
            with open(os.path.join(d, m.name + ".bitproto"), "w") as fh:
                fh.write(lib_text(m))
        for k, case in enumerate(cs):
            f, text = materialise(case)
            path = os.path.join(d, "t.bitproto")
            with open(path, "w") as fh:
                fh.write(text)
            scope, idx = find_use(f)
            out.count("states")
            out.count("transitions")
            out.count("evaluations")
            out.count("traces")
            out.cls("kind:" + case["kind"])
            if case["kind"] == "const":
                dotted = case["dotted"]
                exp, corner = resolve(scope, idx, dotted)
                exp_val = exp[2] if exp is not None and exp[0] == "const" else None
            else:
                exp, corner = resolve(scope, idx, case["dotted"])
                exp_val = exp[2] if exp is not None and exp[0] == "enum" else None
            if corner:
                out.count("corner_first_component_without_rest")
            populated = sum(1 for v in case["choice"].values() if v)
            if populated >= 2:
                out.count("nontrivial")
                out.cls("shadowing")
            err, proto = None, None
            try:
                with watchdog(30), quiet_stderr():
                    proto = parse(path)
            except ParserError as e:
                err = e
            except BaseException as e:  # noqa
                out.violation(check="resolve", symptom=type(e).__name__, site=repo_site(e), features=["kind:" + case["kind"]],
                              desc="%r: parse escaped with %s" % (case, type(e).__name__), detail=exc_summary(e), schema={"t.bitproto": text},
                              replay=dict(kind="c11", case=case))
                continue

            def viol(symptom, detail):
                out.violation(check="resolve", symptom=symptom, site="compiler/bitproto/parser.py:_lookup_referenced_member",
                              features=["kind:" + case["kind"], "use:" + case["use"]], sig_features=[case["kind"], case["dotted"]],
                              desc="use of %s in scope %s, declarations %s shadow=%s :: %s" % (case["dotted"], case["use"], case["choice"], case["shadow"], detail),
                              schema={"t.bitproto": text, "lib.bitproto": lib_text(LIB), "lia.bitproto": lib_text(LIA)}, replay=dict(kind="c11", case=case))

            if case.get("early"):
                # the early use is a reference of its own: when IT has no visible earlier definition the schema must be rejected there
                sc0, idx0 = find_use(f, "f0")
                exp0, corner0 = resolve(sc0, idx0, case["dotted"])
                if exp0 is None or exp0[0] != "enum":
                    out.count("early_use_unresolvable")
                    early_line = text.split("\n").index(next(l for l in text.split("\n") if l.strip().endswith(" f0 = 9"))) + 1
                    out.outcome("reject-early", case["dotted"], case["early"])
                    if err is None:
                        if not corner0:
                            viol("unresolvable_reference_accepted", "the early use has no visible earlier definition, but the schema was accepted")
                    elif not isinstance(err, (ReferencedTypeNotDefined, ReferencedConstantNotDefined)) or err.lineno != early_line:
                        if not corner0:
                            viol("wrong_rejection", "%s at L%s (early use is on L%d): %s" % (type(err).__name__, err.lineno, early_line, str(err)[:200]))
                    continue
            use_line = text.split("\n").index(next(l for l in text.split("\n") if l.strip().endswith(" f = 1"))) + 1
            if exp_val is None:
                out.outcome("reject", case["dotted"], case["use"])
                if err is None:
                    if corner:
                        continue
                    viol("unresolvable_reference_accepted", "no visible earlier definition, but the schema was accepted")
                elif not isinstance(err, (ReferencedTypeNotDefined, ReferencedConstantNotDefined)) or err.lineno != use_line:
                    # a *kind* error (e.g. the name resolves to a message where a constant is needed) is also a correct rejection
                    from bitproto.errors import ReferencedNotConstant, ReferencedNotType, InvalidArrayCap
                    if isinstance(err, (ReferencedNotConstant, ReferencedNotType, InvalidArrayCap)) and err.lineno == use_line:
                        continue
                    viol("wrong_rejection", "%s at L%s (use is on L%d): %s" % (type(err).__name__, err.lineno, use_line, str(err)[:200]))
                continue
            if err is not None:
                if corner:
                    continue
                viol("resolvable_reference_rejected", "expected width/value %s; got %s: %s" % (exp_val, type(err).__name__, str(err)[:200]))
                continue
            # locate the parsed field
            names = []
            s2 = scope
            while s2 is not None and s2.kind != "file":
                names.insert(0, s2.name)
                s2 = s2.parent
            msg = proto.get_member(*names)
            fld = [x for x in msg.fields() if x.name == "f"][0]
            mult = 2 if case.get("array") else 1
            if case["kind"] == "const":
                got = fld.type.cap
            else:
                got = fld.type.nbits()
                if got % mult:
                    viol("resolved_to_wrong_definition", "array field of %d bits is not %d elements of one width" % (got, mult))
                    continue
                got //= mult
            out.outcome("accept", got)
            if got != exp_val:
                viol("resolved_to_wrong_definition", "field gets width/value %s, the innermost visible earlier definition has %s" % (got, exp_val))
                continue
            if case.get("early"):
                sc0, idx0 = find_use(f, "f0")
                exp0, corner0 = resolve(sc0, idx0, case["dotted"])
                names0 = []
                s3 = sc0
                while s3 is not None and s3.kind != "file":
                    names0.insert(0, s3.name)
                    s3 = s3.parent
                fld0 = [x for x in proto.get_member(*names0).fields() if x.name == "f0"][0]
                if exp0 is not None and exp0[0] == "enum" and fld0.type.nbits() != exp0[2] * mult:
                    viol("early_use_resolved_to_wrong_definition", "early use gets width %s, expected %s" % (fld0.type.nbits(), exp0[2] * mult))
            if k % 8 == 0 and case["kind"] != "const" and not (case.get("early") and case["early"] == case["use"]):
                # the resolved definition is also the one the encoded layout gets
                from ..pyback import render_strings
                py = "\n".join(render_strings(proto, "py").values())
                import re
                cname = "_".join(names)
                m = re.search(r"class %s\(bp\.MessageBase\):\n\s+# Number.*\n\s+BYTES_LENGTH: ClassVar\[int\] = (\d+)" % cname, py)
                out.count("layout_checks")
                if not m or int(m.group(1)) != (exp_val * mult + 7) // 8:
                    viol("layout_uses_other_definition", "BYTES_LENGTH of %s is %s, expected %d" % (cname, m.group(1) if m else None, (exp_val * mult + 7) // 8))
            if case["kind"] != "const":
                # ... and the one the C back end names in the struct (every definition of X has its own width, written next to its typedef)
                try:
                    cname, cw = c_width_of_field_f(path, sc.sub("c%d" % k))
                except Exception as e:  # noqa
                    viol("c_rendering_failed:" + type(e).__name__, exc_summary(e)[:300])
                    continue
                out.count("c_checks")
                if cw != exp_val:
                    viol("c_struct_uses_other_definition", "struct member f is declared with C type %r, whose typedef says %s bit; the resolved definition has %d" % (cname, cw, exp_val))
            if case["kind"] in ("as-homonym", "shadow-import") or (case["kind"] != "const" and (case["dotted"].split(".")[0] in ("lib", "al", "lia") or k % 4 == 0)):
                # ... and the one the generated PYTHON actually encodes with
                try:
                    with watchdog(20):
                        sent, back = py_roundtrip(path, sc.sub("p%d" % k), names, exp_val, bool(case.get("array")))
                except BaseException as e:  # noqa
                    viol("python_output_fails:" + type(e).__name__, exc_summary(e)[:300])
                    continue
                out.count("py_runs")
                if sent != back:
                    viol("python_encodes_with_other_definition", "a value with bits 0 and %d set (%d) comes back as %d from the generated Python" % (exp_val - 1, sent, back))
            if k % 50 == 0:
                out.sample(dict(case=dict(case, choice=dict(case["choice"])), resolved_width=got, schema=text[-500:]))
    return out.result()


def units(tier):
    n = len(cases(tier))
    return [("P", tier, i, min(n, i + 60)) for i in range(0, n, 60)]


def main(pid, tier):
    t0 = time.time()
    acc = Acc()
    acc.merge(run_units(units(tier), run_unit, maxtasks=20))
    c = acc.counters
    g = []
    for need in ("kind:simple", "kind:dotted", "kind:shadow-import", "kind:const", "kind:two-uses", "kind:as-homonym", "shadowing"):
        if acc.classes.get(need, 0) < 1:
            g.append("no case of " + need)
    if c["c_checks"] < 100:
        g.append("C struct checks %d" % c["c_checks"])
    cov = dict(states=c["states"], transitions=c["transitions"], traces_validated_against_impl=c["traces"], evaluations=c["evaluations"],
               distinct_nontrivial=c["nontrivial"], layout_checks=c["layout_checks"], c_struct_checks=c["c_checks"], python_round_trips=c["py_runs"], corner_cases_both_outcomes_accepted=c["corner_first_component_without_rest"],
               rule="skeleton file > A > B > C (+ imported files lib / lia as `al`, each with A > B): for the simple name X all 3^4 combinations of "
                    "declaration sites (per scope none/before/after) x 4 use scopes; 17 dotted uses x site combinations; a nested message named like "
                    "an import; constants as capacities; every declaration has a distinct bit width so the resolved definition is identified by "
                    "nbits - by the parsed field, by the Python output's BYTES_LENGTH and by the typedef the C header names for the struct member "
                    "(the imported files carry their own c.name_prefix); oracle: independent resolver (innermost enclosing scope with a completed, textually earlier declaration; dotted paths "
                    "through members); unresolvable => ReferencedTypeNotDefined/ReferencedConstantNotDefined at the use line; non-trivial = >= 2 "
                    "declaration sites populated", exhaustive=True, bound="depth 3, one name, %d cases" % len(cases(tier)))
    return finish(PID, tier, acc, cov, t0, assumptions=["resolver model bpmc/checks/c11.py:resolve"], guards=g)


def replay(payload):
    bind.bind()
    import bpmc.checks.c11 as me
    case = payload["replay"]["case"]
    if case.get("shadow"):
        case["shadow"] = tuple(case["shadow"])
    saved = me.cases
    me.cases = lambda tier: [case]
    try:
        res = run_unit(("P", "quick", 0, 1))
    finally:
        me.cases = saved
    if res.get("violations"):
        print("REPRODUCED: %s" % res["violations"][0].get("desc"))
        return 1
    print("NOT REPRODUCED")
    return 0
