"""C14: every width x bit-offset x signedness combination is bit-exact in every runtime.

The space in the statement is finite and enumerated completely:
  S. schemas {bool, byte, uint1..64, int1..64} x pad 0..7 x {scalar, arr cap 3, arr cap 8, alias,
     alias-to-array, array-of-alias} through generated Python, generated C (standard mode,
     -O0/-O2, thorough: all six builds) and the four -O executables;
  D. direct calls of BpEndecodeBaseType / BpEndecodeInt / BpEndecodeArray for every
     (kind, width, offset) on little-endian builds and on the big-endian build (emulated host);
  R. the raw copier BpCopyBufferBits(n, dst, src, di, si) for all n in 1..64 (+ batch shapes),
     di, si in 0..7 against a bit loop.
"""
import time

from .. import bind, cback, ref, rtback, values
from ..evidence import finish
from ..explore import Acc, UnitOut, run_units
from ..pyback import Scratch
from . import ccodec, copt, pycodec

PID = "C14"


def basis_ints(w, signed):
    """zero, all-ones, every single bit, minimum, maximum (+ alternating patterns)."""
    vals = [0, (1 << w) - 1] + [1 << k for k in range(w)] + [0x5555555555555555 & ((1 << w) - 1), 0xAAAAAAAAAAAAAAAA & ((1 << w) - 1)]
    if signed:
        vals += [1 << (w - 1), (1 << (w - 1)) - 1]  # min, max as bit patterns
    out, seen = [], set()
    for v in vals:
        if v not in seen:
            seen.add(v)
            out.append(v)
    return out


def storage_bytes(pattern, w, signed, size, be):
    v = pattern
    if signed and (pattern >> (w - 1)) & 1:
        v = pattern | (((1 << (8 * size)) - 1) & ~((1 << w) - 1))  # sign-extended to the storage
    b = v.to_bytes(size, "little")
    return b[::-1] if be else b


def run_direct(unit):
    """Unit ('D', variant, widths): direct base-type / int / array calls."""
    _, variant, kinds = unit
    out = UnitOut()
    be = variant == "be-emu"
    with Scratch() as sc:
        exe = rtback.build_rt(sc.dir, variant)
        rt = rtback.Rt(exe)
        expects = []

        def flush():
            res = rt.run()
            for (tag, exp), r in zip(expects, res):
                out.count("evaluations")
                out.count("traces")
                out.count("transitions")
                if tag[1] != 0:
                    out.count("nontrivial")
                flag, data, wire, ci = r
                got = (bytes(data), bytes(wire), ci)
                out.outcome(tag[0], got[1])
                if flag or got != exp:
                    out.violation(check="direct:" + tag[0], symptom="wrong_result" if not flag else "flag%d" % flag,
                                  site="lib/c/bitproto.c:" + tag[0], features=["config:" + variant], sig_features=[variant],
                                  desc="[%s] %r expected (data,wire,i)=(%s,%s,%d) got (%s,%s,%d)" % (
                                      variant, tag, exp[0].hex(), exp[1].hex(), exp[2], got[0].hex(), got[1].hex(), got[2]),
                                  replay=dict(kind="c14-direct", unit=list(unit)))
            expects.clear()

        try:
            for kind, w in kinds:
                signed = kind == "int"
                size = 1 if kind in ("bool", "byte") else rtback.storage_size(w)
                out.count("states", 8)
                for off in range(8):
                    wl = (off + w + 7) // 8
                    for pat in basis_ints(w, signed):
                        # encode: earlier bits of the stream are already set and must survive
                        pre = (1 << off) - 1
                        wire0 = pre.to_bytes(wl, "little")
                        data = storage_bytes(pat, w, signed, size, be)
                        exp_wire = (pre | (pat << off)).to_bytes(wl, "little")
                        rt.q_base(True, 1 if signed else 0, w, off, data, wire0)
                        expects.append(((("int" if signed else "base") + "-encode", pat, kind, w, off), (data, exp_wire, off + w)))
                        # decode: surrounding bits zero, and surrounding bits one
                        for bg in (0, 1):
                            total = wl * 8
                            allones = (1 << total) - 1
                            wirev = (pat << off) | ((allones & ~(((1 << w) - 1) << off)) if bg else 0)
                            wire = wirev.to_bytes(wl, "little")
                            expd = storage_bytes(pat, w, signed, size, be)
                            rt.q_base(False, 1 if signed else 0, w, off, bytes(size), wire)
                            expects.append(((("int" if signed else "base") + "-decode", pat, kind, w, off, bg), (expd, wire, off + w)))
                        if rt.full():
                            flush()
                # arrays of this element kind: cap 3 and cap 8, offsets 0..7
                flag = {"bool": rtback.BP_TYPE_BOOL, "byte": rtback.BP_TYPE_BYTE, "uint": rtback.BP_TYPE_UINT, "int": rtback.BP_TYPE_INT}[kind]
                for cap in (3, 8):
                    for off in range(8):
                        wl = (off + w * cap + 7) // 8
                        pats = basis_ints(w, signed)
                        for ei in (0, cap - 1):
                            for pat in pats[:6] + pats[-3:]:
                                for bgp in (0, (1 << w) - 1):
                                    elems = [bgp] * cap
                                    elems[ei] = pat
                                    data = b"".join(storage_bytes(e, w, signed, size, be) for e in elems)
                                    stream = 0
                                    for k, e in enumerate(elems):
                                        stream |= e << (off + k * w)
                                    wire = stream.to_bytes(wl, "little")
                                    rt.q_array(True, 0, cap, flag, 0, w, size, off, data, bytes(wl))
                                    expects.append((("array-encode", pat, kind, w, off, cap, ei, bgp), (data, wire, off + w * cap)))
                                    rt.q_array(False, 0, cap, flag, 0, w, size, off, bytes(len(data)), wire)
                                    expects.append((("array-decode", pat, kind, w, off, cap, ei, bgp), (data, wire, off + w * cap)))
                                    if rt.full():
                                        flush()
            flush()
        except cback.HarnessFault as e:
            out.violation(check="direct:bounds", symptom="fault", site="lib/c/bitproto.c", features=["config:" + variant], sig_features=[variant],
                          desc="[%s] rt harness died: %s %s" % (variant, e, e.stderr), replay=dict(kind="c14-direct", unit=list(unit)))
        finally:
            rt.close()
    out.sample(dict(kind="direct", variant=variant, kinds=kinds[:3], note="BpEndecodeBaseType/BpEndecodeInt/BpEndecodeArray at offsets 0..7"))
    return out.result()


def copy_ref(n, dst, src, di, si):
    d = bytearray(dst)
    for k in range(n):
        if (src[(si + k) // 8] >> ((si + k) % 8)) & 1:
            d[(di + k) // 8] |= 1 << ((di + k) % 8)
    return bytes(d)


def run_copier(unit):
    """Unit ('R', variant, ns): BpCopyBufferBits vs a bit loop."""
    _, variant, ns = unit
    out = UnitOut()
    with Scratch() as sc:
        exe = rtback.build_rt(sc.dir, variant)
        rt = rtback.Rt(exe)
        expects = []

        def flush():
            for (tag, exp), (flag, dst) in zip(expects, rt.run()):
                out.count("evaluations")
                out.count("traces")
                out.count("transitions")
                out.count("nontrivial")
                out.outcome(tag, bytes(dst))
                if flag or bytes(dst) != exp:
                    out.violation(check="copier", symptom="wrong_result" if not flag else "flag%d" % flag, site="lib/c/bitproto.c:BpCopyBufferBits",
                                  features=["config:" + variant], sig_features=[variant],
                                  desc="[%s] BpCopyBufferBits n=%d di=%d si=%d src=%s: expected %s got %s flag=%d" % (
                                      variant, tag[0], tag[1], tag[2], tag[3], exp.hex(), bytes(dst).hex(), flag),
                                  replay=dict(kind="c14-copier", unit=list(unit)))
            expects.clear()

        try:
            for n in ns:
                out.count("states", 64)
                for di in range(8):
                    for si in range(8):
                        sl = (si + n + 7) // 8
                        dl = (di + n + 7) // 8
                        pats = [(1 << n) - 1, 0x5555555555555555555555 & ((1 << n) - 1)]
                        step = 1 if n <= 64 else max(1, n // 24)
                        pats += [1 << k for k in range(0, n, step)] + [1 << (n - 1)]
                        for pat in pats:
                            for srcbg in (0, 1):
                                # source bits outside [si, si+n) must not be copied
                                total = sl * 8
                                sv = (pat << si) | ((((1 << total) - 1) & ~(((1 << n) - 1) << si)) if srcbg else 0)
                                src = sv.to_bytes(sl, "little")
                                dst0 = ((1 << di) - 1).to_bytes(dl, "little")  # bits already written before di survive
                                exp = copy_ref(n, dst0, src, di, si)
                                rt.q_copy(n, di, si, dst0, src)
                                expects.append(((n, di, si, src.hex()), exp))
                                if rt.full():
                                    flush()
            flush()
        except cback.HarnessFault as e:
            out.violation(check="copier", symptom="fault", site="lib/c/bitproto.c:BpCopyBufferBits", features=["config:" + variant], sig_features=[variant],
                          desc="[%s] rt harness died: %s %s" % (variant, e, e.stderr), replay=dict(kind="c14-copier", unit=list(unit)))
        finally:
            rt.close()
    out.sample(dict(kind="copier", variant=variant, n=list(ns)[:4]))
    return out.result()


def run_unit(unit):
    k = unit[0]
    if k == "D":
        return run_direct(unit)
    if k == "R":
        return run_copier(unit)
    if k == "PY":
        return pycodec.run_unit(unit[1])
    if k == "C":
        return ccodec.run_unit(unit[1])
    if k == "OPT":
        return copt.run_unit(unit[1])
    raise ValueError(k)


def all_kinds():
    return [("bool", 1), ("byte", 8)] + [("uint", w) for w in range(1, 65)] + [("int", w) for w in range(1, 65)]


def units(tier):
    key = "c14:" + tier
    us = []
    kinds = all_kinds()
    rtv = ["le-O0", "le-O2", "be-emu"] if tier == "quick" else ["le-O0", "le-O2", "le-O3", "be-emu"]
    for v in rtv:
        for i in range(0, len(kinds), 6):
            us.append(("D", v, kinds[i:i + 6]))
        ns = list(range(1, 65)) + [65, 71, 72, 96, 127, 128, 129, 136, 192, 256, 264, 320, 512, 520]
        for i in range(0, len(ns), 6):
            us.append(("R", v, ns[i:i + 6]))
    us += [("PY", u) for u in pycodec.units(PID, key)]
    us += [("C", u) for u in ccodec.units(PID, key)]
    us += [("OPT", u) for u in copt.units(PID, key)]
    return us


def main(pid, tier):
    t0 = time.time()
    acc = Acc()
    acc.merge(run_units(units(tier), run_unit, maxtasks=8))
    c = acc.counters
    cov = dict(
        states=c["states"], transitions=c["transitions"], traces_validated_against_impl=c["traces"], evaluations=c["evaluations"],
        distinct_nontrivial=c["nontrivial"],
        rule="the complete space {bool, byte, uint1..64, int1..64} x bit offsets 0..7 x {scalar, array element cap 3 / cap 8, alias, "
             "alias-to-array, array-of-alias} x basis values {0, all-ones, every single bit, min, max, alternating}: through generated Python, "
             "generated C (standard mode builds, four -O executables), direct calls of the C runtime entry points on little-endian builds and on "
             "the big-endian build fed byte-reversed storage, and the raw copier for every (n, di, si); non-trivial = value has a bit set",
        exhaustive=True,
        bound="complete for the stated space; build variants: rt %s" % ("le-O0, le-O2, be-emu" if tier == "quick" else "le-O0, le-O2, le-O3, be-emu"),
        go_part="Go -O statements: not executed in this run",
    )
    g = []
    if c["states"] < 5000:
        g.append("only %d states" % c["states"])
    return finish(PID, tier, acc, cov, t0, assumptions=["reference model bpmc/ref.py", "big-endian host emulated by byte-reversed storage (DESIGN F6)"], guards=g)


def replay(payload):
    bind.bind()
    r = payload["replay"]
    if r.get("kind", "").startswith("c14-"):
        res = run_unit(tuple(r["unit"][:2]) + (([tuple(k) for k in r["unit"][2]]) if r["unit"][0] == "D" else r["unit"][2],))
        if res.get("violations"):
            print("REPRODUCED: %s" % res["violations"][0].get("desc"))
            return 1
        print("NOT REPRODUCED")
        return 0
    mod = {"pycodec": pycodec, "ccodec": ccodec, "copt": copt}[r["kind"]]
    return mod.replay(payload)
