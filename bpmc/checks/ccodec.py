"""C03: generated C (standard mode) + C runtime vs the reference model (and the Python peer).

States: the same schema space as C01/C02.  Configurations: gcc -O0..-O3, separate translation
units and a single (unity) translation unit.  Every ENC/DEC runs in a stand-alone harness with
the struct and the wire buffer flush against PROT_NONE pages (both ends).
"""
import os
import time
from typing import Any, Dict, List

from .. import bind, cback, ref, scope, values
from ..evidence import finish, pack, unpack
from ..explore import Acc, UnitOut, exc_summary, repo_site, run_units
from ..pyback import Scratch, compile_py, get_vec, set_vec, watchdog
from . import pycodec

BATCH = 32


def variants(tier, batch_no=0):
    if tier == "c14:quick":
        return ["std-O0", "std-O2"]
    if tier == "quick":
        return ["std-O0", "std-O2", "unity-O3"]
    if batch_no % 3:
        return ["std-O0", "std-O2", "unity-O3"]
    return ["std-O0", "std-O1", "std-O2", "std-O3", "unity-O2", "unity-O3"]  # thorough: all six builds on every third batch


def c_classes(c: scope.Case, lay) -> List[str]:
    """Shortcut classes of lib/c/bitproto.c this state exercises (vacuity guards)."""
    out = set()
    for l in lay:
        di = l.offset % 8
        cls = "lt8" if l.width < 8 else "8to15" if l.width < 16 else "16to31" if l.width < 32 else "ge32"
        out.add("copy:%s:%s" % (cls, "di0" if di == 0 else "diN"))
        if l.signed and l.width not in (8, 16, 32, 64):
            out.add("signfix:%d" % (8 if l.width <= 8 else 16 if l.width <= 16 else 32 if l.width <= 32 else 64))

    def arrs(t):
        from ..ir import Array, Named, AliasDef, MessageDef, EnumDef, Bool, Byte, Uint, Int
        if isinstance(t, Named):
            d = t.target
            if isinstance(d, AliasDef):
                arrs(d.type)
            elif isinstance(d, MessageDef):
                for f in d.fields():
                    arrs(f.type)
        elif isinstance(t, Array):
            e = t.elem
            via_alias = isinstance(e, Named) and isinstance(e.target, AliasDef)
            base = ref.nbits(e)
            u = e
            while isinstance(u, Named) and isinstance(u.target, AliasDef):
                u = u.target.type
            is_int = isinstance(u, (Byte, Uint, Int)) or (isinstance(u, Named) and isinstance(u.target, EnumDef))
            if base in (8, 16, 32, 64) and is_int:
                out.add("batch:%d:%s%s" % (base, type(u).__name__ if not isinstance(u, Named) else "Enum", ":alias" if via_alias else ""))
            else:
                out.add("per_element")
            arrs(e)

    for f in c.msg.fields():
        arrs(f.type)
    return sorted(out)


def _short(x):
    """Long vectors (BIG cases) are abbreviated in messages; the replay file carries them in full."""
    r = repr(x)
    return r if len(r) <= 400 else r[:200] + " ...(%d chars)... " % len(r) + r[-100:]


def _viol(out, pid, check, symptom, site, c, lay, desc, detail, vec=None, config=None):
    desc = desc if len(desc) <= 1500 else desc[:1000] + " ...(%d chars)... " % len(desc) + desc[-300:]
    out.violation(check=check, symptom=symptom, site=site, features=pycodec.case_features(c, lay) + ["config:%s" % config],
                  sig_features=[config] if symptom in ("fault", "build") else [],
                  desc="%s :: [%s] %s" % (c.desc, config, desc), detail=detail, schema=pycodec.schema_text(c), value=vec,
                  replay=dict(kind="ccodec", pid=pid, case=pack(c), vec=vec, config=config))


def run_unit(unit):
    if unit[0] == "BIGC":
        _, pid, tier, k = unit
        out = UnitOut()
        with Scratch() as sc:
            run_batch(pid, tier, [scope.big_space(codec_only=True)[k]], sc, out, variants("quick"))
        return out.result()
    pid, tier, idxs = unit
    sp = pycodec.c_space(tier)
    cases = [sp[i] for i in idxs]
    out = UnitOut()
    with Scratch() as sc:
        run_batch(pid, tier, cases, sc, out, variants(tier, idxs[0] // BATCH))
    return out.result()


def _py_module(cases, sc, tag):
    try:
        ms, _, _ = compile_py(scope.make_batch(cases), sc.sub("py" + tag))
        return ms
    except Exception:
        return None  # Python pipeline problems are C01/C10's business


def run_batch(pid, tier, cases, sc, out, vlist, depth=0, tag="0"):
    try:
        cb = cback.CBatch(cases, sc.sub("c" + tag))
        for v in vlist:
            cb.build(v)
    except Exception as e:
        if len(cases) > 1:
            for k, c in enumerate(cases):
                run_batch(pid, tier, [c], sc, out, vlist, depth + 1, "%s_%d" % (tag, k))
            return
        c = cases[0]
        lay = ref.layout(c.msg)
        out.count("states")
        site = repo_site(e) if not isinstance(e, cback.CBuildError) else "gcc:" + e.stage.split(":")[0]
        _viol(out, pid, "pipeline", type(e).__name__, site, c, lay, "schema the reference accepts failed to render/compile as C",
              exc_summary(e) if not isinstance(e, cback.CBuildError) else e.msg, config="build")
        return
    ms = _py_module(cases, sc, tag)
    try:
        for v in vlist:
            try:
                h = cb.harness(v)
            except cback.HarnessFault as e:
                out.violation(check="harness", symptom="fault", site="harness:start", features=["config:" + v],
                              desc="harness did not start [%s]" % v, detail=str(e) + e.stderr)
                continue
            try:
                for r, c in enumerate(cases):
                    try:
                        _run_case(pid, tier, c, r, h, v, out, ms.module if ms else None, first_variant=(v == vlist[0]))
                    except cback.HarnessFault:
                        h.close()
                        h = cb.harness(v)  # the fault was recorded; continue with the next state
            finally:
                h.close()
    finally:
        if ms:
            ms.unload()


def _run_case(pid, tier, c, r, h, variant, out, pymod, first_variant):
    lay = ref.layout(c.msg)
    leaves = [l for l in lay if l.is_value]
    if "big" in c.feats:
        mode, vecs = "PATTERNS", values.big_vectors(leaves)
    else:
        mode, vecs = values.value_space(leaves, pycodec.vmax(tier))
    if first_variant:
        out.count("states")
        for k in c_classes(c, lay):
            out.cls(k)
        out.cls("mode:" + mode)
    row = h.rows[r]
    nb = ref.nbytes(c.msg)
    if row["nbytes"] != nb:
        _viol(out, pid, "bytes_length", "mismatch", "c:BYTES_LENGTH", c, lay, "BYTES_LENGTH=%d expected %d" % (row["nbytes"], nb), "", config=variant)
        return
    if not vecs:
        return
    expects = [ref.encode(c.msg, v, lay) for v in vecs]
    images = [h.image(r, leaves, v) for v in vecs]
    try:
        enc = h.encode_many(r, images)
        dec = h.decode_many(r, expects)
    except cback.HarnessFault as e:
        import re as _re
        m = _re.search(r"FAULT sig=(\d+) op=(.) row=(\d+) item=(\d+) place=(\d+)", e.stderr or "")
        vec = None
        what = "harness died: %s" % e
        if m:
            item = int(m.group(4))
            # items are chunked; the reported index is within the last chunk sent
            what = "signal %s in op %s, buffer placement %s (0: flush against the END guard page, 1: against the START guard page)" % (
                m.group(1), m.group(2), m.group(5))
        _viol(out, pid, "bounds", "fault", "lib/c/bitproto.c", c, lay, what, e.stderr, config=variant)
        raise
    out.count("transitions", 2 * len(vecs))
    out.count("evaluations", 2 * len(vecs))
    out.count("traces", 2 * len(vecs))
    nontriv = sum(1 for v in vecs if any(v)) if len(lay) > 1 else 0
    out.count("nontrivial", nontriv)
    first = True
    for vec, img, exp, (ef, eb), (df, dimg) in zip(vecs, images, expects, enc, dec):
        out.outcome(eb)
        if eb != exp:
            _viol(out, pid, "encode", "wrong_bytes", "lib/c/bitproto.c:encode", c, lay,
                  "vec=%s expected=%s got=%s" % (vec, exp.hex(), eb.hex()), "", vec, variant)
        if ef:
            _viol(out, pid, "encode", "flag%d" % ef, "lib/c/bitproto.c:encode", c, lay,
                  "vec=%s harness flag %d (1: result depends on buffer placement, 2: encode modified the struct, 4: rc!=0)" % (vec, ef), "", vec, variant)
        back = h.unimage(r, leaves, dimg)
        if back != list(vec):
            bad = [(l.path, v, b) for l, v, b in zip(leaves, vec, back) if v != b][:4]
            _viol(out, pid, "decode", "wrong_value", "lib/c/bitproto.c:decode", c, lay,
                  "vec=%s decoded=%s" % (vec, back), "first differing leaves (path, encoded, decoded): %r" % (bad,), vec, variant)
        if df:
            _viol(out, pid, "decode", "flag%d" % df, "lib/c/bitproto.c:decode", c, lay,
                  "vec=%s harness flag %d (1: placement dependent, 2: decode modified its input, 4: rc!=0)" % (vec, df), "", vec, variant)
        if first and first_variant:
            out.sample(dict(schema=pycodec.schema_text(c)["t.bitproto"][-300:], value=vec, config=variant,
                            expected_bytes=exp.hex(), c_bytes=eb.hex(), c_decoded=back))
            first = False
    # the Python peer, explicitly, on a handful of values per state (both directions)
    if pymod is not None and first_variant:
        cls = getattr(pymod, c.msg.name, None)
        if cls is not None:
            for vec, (ef, eb) in list(zip(vecs, enc))[:6]:
                try:
                    with watchdog(10):
                        o = cls()
                        set_vec(o, leaves, vec)
                        pb = bytes(o.encode())
                        m2 = cls()
                        m2.decode(bytearray(eb))
                        pback = get_vec(m2, leaves)
                except Exception:
                    continue  # Python-side failure: C01/C02 report it
                out.count("py_interop")
                if pb != eb:
                    _viol(out, pid, "interop", "py_c_bytes_differ", "interop", c, lay,
                          "vec=%s python=%s c=%s" % (vec, pb.hex(), eb.hex()), "", vec, variant)
                if pback != list(vec) and eb == ref.encode(c.msg, vec, lay):
                    pass  # Python decode defect on correct bytes: C02's business


def units(pid, tier):
    sp = pycodec.c_space(tier)
    idx = list(range(len(sp)))
    big = [("BIGC", pid, tier, k) for k in range(len(scope.big_space(codec_only=True)))] if pid == "C03" else []
    return big + [(pid, tier, idx[i:i + BATCH]) for i in range(0, len(idx), BATCH)]


def guards(acc):
    g = []
    need = ["copy:%s:%s" % (a, b) for a in ("lt8", "8to15", "16to31", "ge32") for b in ("di0", "diN")]
    need += ["batch:8:Byte", "batch:8:Uint", "batch:16:Uint", "batch:32:Uint", "batch:64:Uint", "batch:8:Int", "batch:16:Int",
             "batch:32:Int", "batch:64:Int", "batch:8:Enum", "batch:16:Enum", "per_element",
             "signfix:8", "signfix:16", "signfix:32", "signfix:64", "batch:8:Uint:alias"]
    for n in need:
        if acc.classes.get(n, 0) < 1:
            g.append("no state of class %s" % n)
    return g


def main(pid, tier):
    t0 = time.time()
    acc = Acc()
    acc.merge(run_units(units(pid, tier), run_unit, maxtasks=10))
    c = acc.counters
    cov = dict(
        states=c["states"], transitions=c["transitions"], traces_validated_against_impl=c["traces"],
        evaluations=c["evaluations"], distinct_nontrivial=c["nontrivial"], py_interop_comparisons=c["py_interop"],
        configurations=variants(tier),
        rule="states = canonical schemas of SING u COMB u TREE; values EXH/BASIS as struct images (padding bytes 0xA5); "
             "every (state, value) is encoded and decoded under every build configuration inside guard pages; "
             "non-trivial = some value bit set and more than one leaf; counted per (state, value, configuration)",
        exhaustive=True,
        bound="SING(%s) u COMB(2) u TREE(%d) u HOMONYMS, Vmax=%d, builds=%s%s" % (tier, 4 if tier == "quick" else 5, pycodec.vmax(tier), variants(tier), "" if tier == "quick" else " (all six on every third batch, the first three on the others)"),
    )
    return finish(pid, tier, acc, cov, t0,
                  assumptions=["reference model bpmc/ref.py", "gcc 12 code generation for x86-64 (little-endian host)",
                               "harness generator bpmc/cback.py uses only documented names"],
                  guards=guards(acc))


def replay(payload):
    bind.bind()
    r = payload["replay"]
    c = unpack(r["case"])
    out = UnitOut()
    cfg = r.get("config")
    vl = [cfg] if cfg in cback.VARIANTS else ["std-O0", "std-O2", "unity-O3"]
    with Scratch() as sc:
        run_batch(r["pid"], "quick", [c], sc, out, vl)
    if out.violations:
        print("REPRODUCED: %s" % out.violations[0].get("desc"))
        return 1
    print("NOT REPRODUCED")
    return 0
