"""C06: the wire is little-endian whatever the host byte order.

(a) runtime, complete (kind, width, offset) space: direct calls on a -DBP_BIG_ENDIAN build fed
    byte-reversed storage vs the default build (base types, ints, arrays of every base kind)
(b) runtime, whole traditional messages on the big-endian build (emulated host)
(c) optimization mode: --endian big and the -DBP_BIG_ENDIAN branch of the default output vs
    --endian little, standard mode and the reference, with the exhaustive byte sweeps
(d) host detection: all 2^5 combinations of the documented indicator macros x predefinition
"""
import itertools
import os
import re
import subprocess
import time

from .. import bind, cback, ref, scope, values
from ..evidence import finish, pack, unpack
from ..explore import Acc, UnitOut, exc_summary, repo_site, run_units
from ..pyback import Scratch
from . import c14, copt, pycodec

PID = "C06"
BATCH = 32

INDICATORS = [
    ("byte_order", ["-U__BYTE_ORDER__", "-D__BYTE_ORDER__=__ORDER_BIG_ENDIAN__"], ["-U__BYTE_ORDER__", "-D__BYTE_ORDER__=__ORDER_LITTLE_ENDIAN__"]),
    ("arm_big_endian", ["-D__ARM_BIG_ENDIAN=1"], []),
    ("ti_big_endian", ["-D__big_endian__=1"], []),
    ("BIG_ENDIAN", ["-D__BIG_ENDIAN__=1"], []),
    ("iar_little_endian_0", ["-D__LITTLE_ENDIAN__=0"], ["-D__LITTLE_ENDIAN__=1"]),
]


def run_detect(unit):
    """(d) gcc -E -dM over lib/c/bitproto.c and over generated -O code."""
    out = UnitOut()
    with Scratch() as sc:
        # a small traditional schema rendered with -O --endian both
        c = scope.sing_case("d0", "uint", 13, "scalar", 0, 3, False)
        cb = cback.CBatch([c], sc.sub("o"), optimize=True, endian="both")
        targets = [("runtime", os.path.join(bind.CLIB_DIR, "bitproto.c")), ("generated -O", os.path.join(cb.dir, cb.gen_c[0]))]
        for tname, src in targets:
            for combo in itertools.product((0, 1), repeat=len(INDICATORS)):
                for predefined in (0, 1):
                    flags = []
                    for on, (name, yes, no) in zip(combo, INDICATORS):
                        flags += yes if on else no
                    if predefined:
                        flags.append("-DBP_BIG_ENDIAN=1")
                    r = subprocess.run(["gcc", "-E", "-dM", "-w", "-I", bind.CLIB_DIR, "-I", cb.dir] + flags + [src], capture_output=True, text=True)
                    out.count("states")
                    out.count("transitions")
                    out.count("evaluations")
                    out.count("traces")
                    if r.returncode:
                        out.violation(check="detect", symptom="preprocess_failed", site=tname, features=[], desc="%s flags=%s: %s" % (tname, flags, r.stderr[-300:]))
                        continue
                    defined = re.search(r"^#define BP_BIG_ENDIAN\b", r.stdout, re.M) is not None
                    want = bool(any(combo) or predefined)
                    if any(combo):
                        out.count("nontrivial")
                    out.outcome(tname, combo, predefined, defined)
                    if defined != want:
                        out.violation(check="detect", symptom="wrong_detection", site=tname + ":BP_BIG_ENDIAN", features=[],
                                      desc="%s: indicators %s predefined=%d -> BP_BIG_ENDIAN %sdefined" % (
                                          tname, [n for on, (n, _, _) in zip(combo, INDICATORS) if on], predefined, "" if defined else "not "),
                                      replay=dict(kind="c06-detect"))
        out.sample(dict(kind="detect", targets=[t for t, _ in targets], combinations=2 ** len(INDICATORS) * 2))
    return out.result()


def _viol(out, check, symptom, site, c, lay, desc, detail="", config=None):
    out.violation(check=check, symptom=symptom, site=site, features=pycodec.case_features(c, lay) + ["config:%s" % config],
                  sig_features=[config], desc="%s :: [%s] %s" % (c.desc, config, desc), detail=detail,
                  schema=pycodec.schema_text(c), replay=dict(kind="c06-msg", case=pack(c)))


def run_messages(unit):
    """(b) whole traditional messages: be-emu vs le build vs reference."""
    _, tier, idxs = unit
    sp = copt.trad_space(tier)
    cases = [sp[i] for i in idxs]
    out = UnitOut()
    with Scratch() as sc:
        _run_msg_batch(tier, cases, sc, out, "0")
    return out.result()


def _run_msg_batch(tier, cases, sc, out, tag):
    try:
        cb = cback.CBatch(cases, sc.sub("c" + tag))
        cb.build("std-O1")
        cb.build("be-emu")
    except Exception as e:
        if len(cases) > 1:
            for k, c in enumerate(cases):
                _run_msg_batch(tier, [c], sc, out, "%s_%d" % (tag, k))
            return
        c = cases[0]
        out.count("states")
        site = repo_site(e) if not isinstance(e, cback.CBuildError) else "gcc:" + e.stage.split(":")[0]
        _viol(out, "pipeline", type(e).__name__, site, c, ref.layout(c.msg), "build failed",
              exc_summary(e) if not isinstance(e, cback.CBuildError) else e.msg, config="build")
        return
    hl = cb.harness("std-O1")
    hb = cb.harness("be-emu")
    try:
        for r, c in enumerate(cases):
            lay = ref.layout(c.msg)
            leaves = [l for l in lay if l.is_value]
            out.count("states")
            mode, vecs = values.value_space(leaves, pycodec.vmax(tier))
            if not vecs:
                continue
            try:
                exp = [ref.encode(c.msg, v, lay) for v in vecs]
                el = hl.encode_many(r, [hl.image(r, leaves, v) for v in vecs])
                eb = hb.encode_many(r, [hb.image(r, leaves, v, order="big") for v in vecs])
                dl = hl.decode_many(r, exp)
                db = hb.decode_many(r, exp)
            except cback.HarnessFault as e:
                _viol(out, "bounds", "fault", "lib/c/bitproto.c", c, lay, "harness died: %s" % e, e.stderr, config="be-emu")
                hl.close()
                hb.close()
                hl = cb.harness("std-O1")
                hb = cb.harness("be-emu")
                continue
            n = len(vecs)
            out.count("transitions", 4 * n)
            out.count("evaluations", 2 * n)
            out.count("traces", 4 * n)
            out.count("nontrivial", sum(1 for v in vecs if any(v)))
            for v, x, (fl, wl), (fb, wb), (gl, il), (gb, ib) in zip(vecs, exp, el, eb, dl, db):
                out.outcome(wb)
                if wb != wl or wb != x:
                    _viol(out, "encode", "be_differs", "lib/c/bitproto.c:BE paths", c, lay,
                          "vec=%s BE wire=%s LE wire=%s reference=%s" % (v, wb.hex(), wl.hex(), x.hex()), config="be-emu")
                    break
                vb = hb.unimage(r, leaves, ib, order="big")
                vl = hl.unimage(r, leaves, il)
                if vb != vl or vb != list(v):
                    _viol(out, "decode", "be_differs", "lib/c/bitproto.c:BE paths", c, lay,
                          "vec=%s BE decoded=%s LE decoded=%s" % (v, vb, vl), config="be-emu")
                    break
                if fb or gb:
                    _viol(out, "bounds", "flag", "lib/c/bitproto.c:BE paths", c, lay, "vec=%s harness flags enc=%d dec=%d" % (v, fb, gb), config="be-emu")
                    break
            out.sample(dict(kind="message", schema=pycodec.schema_text(c)["t.bitproto"][-250:], value=vecs[-1], be_wire=eb[-1][1].hex(), le_wire=el[-1][1].hex()))
    finally:
        hl.close()
        hb.close()


def run_unit(unit):
    k = unit[0]
    if k == "DET":
        return run_detect(unit)
    if k == "MSG":
        return run_messages(unit)
    if k == "D":
        return c14.run_direct(unit)
    if k == "OPT":
        return copt.run_unit(unit[1])
    raise ValueError(k)


def units(tier):
    us = [("DET",)]
    kinds = c14.all_kinds()
    for v in ("le-O2", "be-emu"):
        for i in range(0, len(kinds), 6):
            us.append(("D", v, kinds[i:i + 6]))
    sp = copt.trad_space(tier)
    # (b): deviation-bounded subset in quick (every 2nd state), all in thorough
    idx = list(range(len(sp)))
    hom = [i for i in idx if "homonym" in sp[i].feats]  # never sub-sampled away
    if tier == "quick":
        idx = sorted(set(idx[::2]) | set(hom))
    us += [("MSG", tier, idx[i:i + BATCH]) for i in range(0, len(idx), BATCH)]
    ou = copt.units(PID, tier)
    if tier == "quick":
        # C04 runs the same executables on every batch; C06 quick takes every second one (and every batch holding a homonym case)
        ou = [u for k, u in enumerate(ou) if k % 2 == 0 or set(u[2]) & set(hom)]
    us += [("OPT", u) for u in ou]
    return us


def main(pid, tier):
    t0 = time.time()
    acc = Acc()
    acc.merge(run_units(units(tier), run_unit, maxtasks=8))
    c = acc.counters
    cov = dict(
        states=c["states"], transitions=c["transitions"], traces_validated_against_impl=c["traces"], evaluations=c["evaluations"],
        distinct_nontrivial=c["nontrivial"],
        rule="(a) every (kind, width 1..64, offset 0..7, storage size) x basis values: direct calls of the base-type/int/array entry points on the "
             "default build and on the -DBP_BIG_ENDIAN build fed byte-reversed storage; (b) traditional states of SING u COMB u TREE on the "
             "big-endian build (emulated host) vs the little-endian build vs the reference; (c) -O executables opt-big and "
             "opt-both-DBP_BIG_ENDIAN vs opt-little/std/reference with exhaustive byte sweeps; (d) 2^5 indicator combinations x predefinition for "
             "the runtime and for generated -O code; non-trivial = value/input has a bit set",
        exhaustive=True,
        bound="(a) complete; (b) %s traditional states; (c) traditional subset of SING(%s) u COMB(2) u TREE u HOMONYMS (quick: every second batch); (d) complete" % (
            "every second" if tier == "quick" else "all", tier),
        excluded="whole extensible messages are not run under emulation (the two native uint16 'ahead' accesses, DESIGN F6); their prefix path is the 16-bit instance of (a)",
    )
    return finish(PID, tier, acc, cov, t0,
                  assumptions=["a big-endian host is emulated: runtime built with -DBP_BIG_ENDIAN, storage byte-reversed by the driver, the sign fix "
                               "(one native access) sees the storage un-reversed through an interposed shim", "reference model bpmc/ref.py"])


def replay(payload):
    bind.bind()
    r = payload["replay"]
    out = UnitOut()
    if r.get("kind") == "c06-msg":
        c = unpack(r["case"])
        with Scratch() as sc:
            _run_msg_batch("quick", [c], sc, out, "r")
        vs = out.violations
    elif r.get("kind") == "c06-detect":
        vs = run_detect(("DET",)).get("violations")
    elif r.get("kind", "").startswith("c14-"):
        return c14.replay(payload)
    else:
        return copt.replay(payload)
    if vs:
        print("REPRODUCED: %s" % vs[0].get("desc"))
        return 1
    print("NOT REPRODUCED")
    return 0
