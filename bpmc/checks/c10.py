"""C10: every accepted schema yields code the target toolchains accept.

FEAT: whole-file feature composition - a base schema x all combinations of <= k non-default
features (imports in five forms, options, empty message/enum, names ending in digits, keyword-like
field names, nesting depth 3, constants of all kinds, comment contents, CRLF, extensible
markers, 2-D arrays ...) x {c, c -O, c -O -F <each message>, py, go}.  Oracles are the
toolchains: gcc, g++ (+ layout probe compiled as C and as C++), CPython import+instantiate, and
the static Go rules of bpmc/gofront."""
import ast as pyast
import itertools
import os
import re
import subprocess
import sys
import time

from .. import bind, gofront
from ..evidence import finish
from ..explore import Acc, UnitOut, exc_summary, repo_site, run_units
from ..pyback import Scratch, quiet_stderr, watchdog

PID = "C10"

BASE = """proto t
@IMPORTS@
@OPTIONS@
@CONSTS@
enum Color : uint3 {
@ENUM_COMMENT@
    COLOR_NONE = @COLOR_FIRST@
    COLOR_RED = 1
}

type Stamp = int24
@DEFS@
message Pen@PEN_EXT@ {
@PEN_HEAD@
    Color color = 1
    Stamp when = 2
    uint5[2]@ARR_EXT@ pts = 3
@PEN_EXTRA@
}

message Box {
    Pen pen = 1
    Pen[2] pens = 2
@BOX_EXTRA@
}
@TAIL@
"""

LIBS = {
    "shared.bitproto": "proto shared\n\nconst LK = 2\n\nenum Mode : uint2 {\n    MODE_OFF = 0\n    MODE_ON = 1\n}\n\ntype Tick = uint13\n\ntype Trio = int5[3]\n\nmessage Point {\n    int7 x = 1\n    int7 y = 2\n}\n",
    "shared2.bitproto": "proto shared2\n\nmessage Point2 {\n    uint9 z = 1\n}\n\nenum Mode2 : uint9 {\n    MODE2_A = 0\n    MODE2_B = 300\n}\n",
    "shared_file.bitproto": "proto sharedx\n\nmessage P3 {\n    bool q = 1\n}\n",
    "mid.bitproto": "proto mid\n\nimport \"leaf.bitproto\"\n\nmessage Mid {\n    leaf.Leaf l = 1\n    uint3 k = 2\n}\n",
    "leaf.bitproto": "proto leaf\n\nmessage Leaf {\n    int9 v = 1\n}\n",
    # a diamond: d1 and d2 both import common, the main file imports all three
    "common.bitproto": "proto common\n\nconst COMMON_N = 2\n\nenum Unit : uint3 {\n    UNIT_NONE = 0\n    UNIT_M = 1\n}\n\ntype Span = int11\n\nmessage Base {\n    uint5 id = 1\n    Unit unit = 2\n    Span span = 3\n}\n",
    "d1.bitproto": "proto d1\n\nimport \"common.bitproto\"\n\nmessage One {\n    common.Base base = 1\n    int7 a = 2\n    common.Span[common.COMMON_N] spans = 3\n}\n",
    "d2.bitproto": "proto d2\n\nimport cm \"common.bitproto\"\n\nmessage Two {\n    cm.Base[2] bases = 1\n    cm.Unit u = 2\n}\n",
    "konst.bitproto": "proto konst\n\nconst KK = 4\n",
    "zoo.bitproto": "proto zoo\n\nmessage Zoo {\n    message Monkey {\n        bool b = 1\n    }\n    enum Food : uint2 {\n        FOOD_NUT = 0\n    }\n    Monkey m = 1\n}\n",
}


def F(name, files=(), tags=(), **slots):
    return dict(name=name, slots=slots, files=list(files), tags=list(tags))


FEATURES = [
    F("import-plain", ["shared.bitproto"], IMPORTS='import "shared.bitproto"', BOX_EXTRA="    shared.Point at = 10\n    shared.Mode mode = 11\n    shared.Tick tick = 30\n    shared.Trio[2] trios = 31"),
    F("import-as", ["shared2.bitproto"], IMPORTS='import sh "shared2.bitproto"', BOX_EXTRA="    sh.Point2[2] at2 = 12\n    sh.Mode2 m2 = 29"),
    F("import-filename-differs", ["shared_file.bitproto"], ["import_file_name_differs_from_proto_name"], IMPORTS='import "shared_file.bitproto"', BOX_EXTRA="    sharedx.P3 p3 = 13"),
    F("import-two-levels", ["mid.bitproto", "leaf.bitproto"], IMPORTS='import "mid.bitproto"', BOX_EXTRA="    mid.Mid mm = 14"),
    F("import-diamond", ["d1.bitproto", "d2.bitproto", "common.bitproto"], ["transitive_import_alias"], IMPORTS='import "d1.bitproto"\nimport "d2.bitproto"\nimport "common.bitproto"',
      BOX_EXTRA="    d1.One one = 64\n    d2.Two two = 65\n    common.Base own = 66\n    common.Unit[2] units = 67"),
    F("import-transitive-reference", ["mid.bitproto", "leaf.bitproto"], ["transitive_dotted_reference"], IMPORTS='import md "mid.bitproto"', BOX_EXTRA="    md.leaf.Leaf tl = 68\n    md.Mid mm2 = 69"),
    F("import-only-constants", ["konst.bitproto"], ["import_only_constants"], IMPORTS='import "konst.bitproto"', CONSTS="const FROM_IMPORT = konst.KK + 1"),
    F("nested-in-imported", ["zoo.bitproto"], IMPORTS='import "zoo.bitproto"', BOX_EXTRA="    zoo.Zoo.Monkey mk = 15\n    zoo.Zoo.Food[2] foods = 28"),
    F("c-name-prefix", OPTIONS='option c.name_prefix = "my_"'),
    F("packing-1", OPTIONS="option c.struct_packing_alignment = 1"),
    F("packing-4", OPTIONS="option c.struct_packing_alignment = 4"),
    F("py-module-name", OPTIONS='option py.module_name = "custom_mod"'),
    F("go-package-path", OPTIONS='option go.package_path = "example.com/t"'),
    F("max-bytes", PEN_HEAD="    option max_bytes = 40"),
    F("empty-message", tags=["empty_message"], DEFS="message Nothing {\n}", BOX_EXTRA="    Nothing nothing = 16\n    uint3 after_nothing = 27"),
    F("empty-ext-message", tags=["empty_message"], DEFS="message Hollow' {\n}", BOX_EXTRA="    Hollow hollow = 26"),
    F("empty-enum", tags=["empty_enum"], DEFS="enum Nil : uint2 {\n}", BOX_EXTRA="    Nil nil = 17\n    Nil[2] nils = 25"),
    F("enum-first-nonzero", COLOR_FIRST="2"),
    F("name-ends-in-digit", tags=["name_ends_in_digit"], DEFS="message A1 {\n    bool[2] f = 2\n}\n\nmessage A {\n    bool[2] g = 12\n}", BOX_EXTRA="    A1 a1 = 18\n    A a = 19"),
    F("name-prefix-of-another", DEFS="message Pe {\n    bool x = 1\n}\n\nmessage PenCase {\n    Pe pe = 1\n}", BOX_EXTRA="    PenCase pc = 20"),
    F("field-type", PEN_EXTRA="    uint3 type = 40\n    uint3[2] after_type = 41"),
    F("field-size", tags=["field_named_size"], PEN_EXTRA="    uint3 size = 42\n    uint3[2] after_size = 43"),
    F("field-field", tags=["field_named_field"], PEN_EXTRA="    uint3 field = 44\n    uint3[2] after_field = 45"),
    F("field-data-s-m", PEN_EXTRA="    uint3 data = 46\n    bool s = 47\n    bool m = 48\n    uint3[2] after_data = 49"),
    F("field-ctx-di-b-i", PEN_EXTRA="    uint3 ctx = 50\n    bool di = 51\n    uint9 b = 52\n    int7 i = 53\n    uint3 lshift = 54\n    bool[2] k = 55"),
    F("field-bp-json", tags=["field_named_like_python_module"], PEN_EXTRA="    uint3 bp = 56\n    uint3 json = 57\n    Color[2] colors = 58"),
    F("nested-depth-3", DEFS="message L1 {\n    message L2 {\n        enum Deep : uint4 {\n            DEEP_A = 0\n        }\n        message L3 {\n            Deep d = 1\n            int9 v = 2\n        }\n        L3[2] l3s = 1\n    }\n    L2 l2 = 1\n    L2.L3 direct = 2\n    L2.Deep dd = 3\n}", BOX_EXTRA="    L1 l1 = 21\n    L1.L2.L3 far = 22"),
    F("constants-all-kinds", CONSTS='const NUM = 0x10\nconst YES = yes\nconst TEXT = "he said \\"hi\\" \\\\ \\n"\nconst CALC = NUM * 2 + 1'),
    F("comment-plain", ENUM_COMMENT="    // about the first member", PEN_HEAD="    // about the option and the field", DEFS="// about Tagged\nmessage Tagged {\n    // about f\n    bool f = 1\n}"),
    F("comment-triple-quote", tags=["comment_triple_quote"], DEFS='// says """ inside\nmessage Quoted {\n    // also """ here\n    bool f = 1\n}'),
    F("comment-trailing-backslash", tags=["comment_trailing_backslash"], DEFS="// ends with backslash \\\nmessage Slashed {\n    // field comment \\\n    bool a = 1\n    bool b = 2\n}"),
    F("comment-star-slash", DEFS="// has */ and /* inside\nmessage Starred {\n    // */ too\n    bool f = 1\n}"),
    F("comment-non-ascii", DEFS="// caf\u00e9 \u4e2d\u6587\nmessage Uni {\n    // \u00fc\n    bool f = 1\n}"),
    F("crlf", tags=["crlf"]),
    F("extensible", PEN_EXT="'", ARR_EXT="'"),
    F("alias-arrays", DEFS="type Row = uint3[2]\n\ntype Flag = bool\n\nmessage Grid {\n    Row[2] rows = 1\n    Row single = 2\n    Flag fl = 3\n    Flag[3] fls = 4\n}", BOX_EXTRA="    Grid grid = 23"),
    F("typedef-syntax", DEFS="typedef uint7 Seven\n\nmessage UsesSeven {\n    Seven s7 = 1\n}"),
    F("wide-types", DEFS="enum Big : uint64 {\n    BIG_A = 0\n    BIG_B = 18446744073709551615\n}\n\nmessage Wide {\n    uint64 u = 1\n    int64 i = 2\n    Big b = 3\n    int33[2] arr = 4\n}", BOX_EXTRA="    Wide wide = 24"),
    F("numbers-out-of-order", PEN_EXTRA="    bool last_declared_first_number = 9\n    uint3 mid_number = 5"),
    F("homonym-nested-messages", DEFS="message Truck {\n    message Slot {\n        uint3[2] v = 1\n    }\n    Slot[2] slots = 1\n    Slot one = 2\n}\n\nmessage Ship {\n    message Slot {\n        int9[2] v = 1\n        bool on = 2\n    }\n    Slot[2] slots = 1\n    Slot one = 2\n}", BOX_EXTRA="    Truck truck = 60\n    Ship ship = 61"),
    F("homonym-nested-enums", DEFS="message Probe {\n    enum Kind : uint3 {\n        KIND_P = 0\n        KIND_Q = 5\n    }\n    Kind[2] kinds = 1\n    Kind kind = 2\n}\n\nmessage Report {\n    enum Kind : uint12 {\n        KIND_R = 0\n        KIND_BIG = 3000\n    }\n    Kind[2] kinds = 1\n    Kind kind = 2\n}", BOX_EXTRA="    Probe probe = 62\n    Report report = 63"),
    F("message-named-like-import", ["shared.bitproto"], DEFS="message Holder {\n    message shared {\n        bool inner = 1\n    }\n    shared sh = 1\n}", tags=["lowercase_message_name"]),
]
FEATURE_INDEX = {f["name"]: k for k, f in enumerate(FEATURES)}
EXCLUSIVE = [{"packing-1", "packing-4"}, {"import-plain", "message-named-like-import"}, {"import-two-levels", "import-transitive-reference"}]


def combos(tier):
    kmax = 2 if tier == "quick" else 3
    out = [()]
    names = [f["name"] for f in FEATURES]
    for k in range(1, kmax + 1):
        for c in itertools.combinations(names, k):
            if any(len(ex & set(c)) > 1 for ex in EXCLUSIVE):
                continue
            if k == 3 and tier == "thorough" and (hash_stable(c) % 2):
                pass
            out.append(c)
    return out


def hash_stable(c):
    import hashlib
    return int(hashlib.sha256(repr(c).encode()).hexdigest()[:8], 16)


def materialise(combo):
    slots = {}
    files = set()
    tags = set()
    crlf = False
    for n in combo:
        f = FEATURES[FEATURE_INDEX[n]]
        for k, v in f["slots"].items():
            slots.setdefault(k, []).append(v)
        files.update(f["files"])
        tags.update(f["tags"])
        if n == "crlf":
            crlf = True
    text = BASE
    for slot in re.findall(r"@(\w+)@", BASE):
        vals = slots.get(slot, [])
        if slot == "COLOR_FIRST":
            rep = vals[0] if vals else "0"
        elif slot in ("PEN_EXT", "ARR_EXT"):
            rep = vals[0] if vals else ""
        else:
            rep = ("\n\n" if slot in ("DEFS",) else "\n").join(vals)
        text = text.replace("@%s@" % slot, rep)
    text = re.sub(r"\n{3,}", "\n\n", text)
    out = {"t.bitproto": text}
    for fn in files:
        out[fn] = LIBS[fn]
    if crlf:
        out = {k: v.replace("\n", "\r\n") for k, v in out.items()}
    return out, sorted(tags)


def sh(cmd, cwd, timeout=120):
    r = subprocess.run(cmd, cwd=cwd, capture_output=True, text=True, timeout=timeout)
    return r.returncode, (r.stdout + r.stderr)


STRUCT_RE = re.compile(r"^struct (\w+) \{\n(.*?)^\}", re.M | re.S)
MEMBER_RE = re.compile(r"^\s+(?:struct )?[\w ]+?\b(\w+)(?:\[\w+\])*;", re.M)
FUNC_DECL_RE = re.compile(r"^int (Encode|Decode|Json)(\w+)\(struct (\w+) \*m, (?:unsigned )?char \*s\);", re.M)


def check_c(d, files, optimize, filt, out_problem, endian="both"):
    """Render + compile + link + C++ include + layout probe. Returns list of (kind, detail)."""
    from ..cback import render_c_files
    gen = os.path.join(d, "gen_c%s%s" % ("_O" if optimize else "", ("_F" + filt) if filt else ""))
    os.makedirs(gen, exist_ok=True)
    try:
        texts = render_c_files(os.path.join(d, "t.bitproto"), gen, optimize=optimize, endian=endian, filter_messages=[filt] if filt else None, lint=True)  # lint first, as the command line does by default
    except Exception as e:
        out_problem("render-c", type(e).__name__, repo_site(e), exc_summary(e))
        return
    written = set(os.listdir(gen))
    # every #include "x_bp.h" must name a file the compiler actually wrote
    for name, text in texts.items():
        for inc in re.findall(r'#include "(\w+_bp\.h)"', text):
            if inc not in written:
                out_problem("c-include", "include_of_file_not_generated", "c:format_import_statement", '%s includes "%s"; files written: %s' % (name, inc, sorted(written)))
                return
    cfiles = sorted(n for n in texts if n.endswith(".c"))
    inc = ["-I", gen, "-I", bind.CLIB_DIR]
    objs = []
    for c in cfiles:
        o = os.path.join(gen, c[:-2] + ".o")
        rc, msg = sh(["gcc", "-std=gnu11", "-Wall", "-Wno-unused", "-Werror=implicit-function-declaration", "-Werror=int-conversion",
                      "-Werror=incompatible-pointer-types", "-c", os.path.join(gen, c), "-o", o] + inc, gen)
        if rc:
            out_problem("c-compile", "gcc_rejects_generated_c", "gcc", "%s: %s" % (c, msg[-1500:]))
            return
        objs.append(o)
    header = texts["t_bp.h"]
    decls = FUNC_DECL_RE.findall(header)
    # a C translation unit calling the whole declared API, linked against everything
    main = ['#include "t_bp.h"', "int main(void) {", "  unsigned char buf[70000] = {0}; char js[70000];"]
    for k, (fn, name, sname) in enumerate(decls):
        main.append("  { struct %s v%d; memset(&v%d, 0, sizeof v%d); %s%s(&v%d, %s); }" % (sname, k, k, k, fn, name, k, "js" if fn == "Json" else "buf"))
    main.append("  return 0; }")
    with open(os.path.join(gen, "main.c"), "w") as f:
        f.write("#include <string.h>\n" + "\n".join(main) + "\n")
    rc, msg = sh(["gcc", "-std=gnu11", "-w", os.path.join(gen, "main.c")] + objs + [os.path.join(bind.CLIB_DIR, "bitproto.c"), "-o", os.path.join(gen, "main")] + inc, gen)
    if rc:
        out_problem("c-link", "link_fails", "gcc:link", msg[-1500:])
        return
    # the header from C++
    with open(os.path.join(gen, "main.cpp"), "w") as f:
        f.write("#include <cstring>\n" + "\n".join(main) + "\n")
    rc, msg = sh(["g++", "-std=c++17", "-fsyntax-only", "-w", os.path.join(gen, "main.cpp")] + inc, gen)
    if rc:
        out_problem("cxx-include", "gxx_rejects_header", "g++", msg[-1500:])
        return
    # layout probe compiled as C and as C++
    probe = ["#include <stdio.h>", "#include <stddef.h>"] + ['#include "%s"' % n for n in sorted(texts) if n.endswith(".h")] + ["int main(void) {"]
    nstruct = 0
    for hn, ht in texts.items():
        if not hn.endswith(".h"):
            continue
        for sname, body in STRUCT_RE.findall(ht):
            nstruct += 1
            probe.append('  printf("%s %%u\\n", (unsigned)sizeof(struct %s));' % (sname, sname))
            for mem in MEMBER_RE.findall(body):
                probe.append('  printf("%s.%s %%u\\n", (unsigned)offsetof(struct %s, %s));' % (sname, mem, sname, mem))
    probe.append("  return 0; }")
    with open(os.path.join(gen, "probe.c"), "w") as f:
        f.write("\n".join(probe) + "\n")
    os.replace(os.path.join(gen, "probe.c"), os.path.join(gen, "probe_c.c"))
    with open(os.path.join(gen, "probe_cpp.cpp"), "w") as f:
        f.write("\n".join(probe) + "\n")
    outs = []
    for cc, src, exe in (("gcc", "probe_c.c", "probe_c"), ("g++", "probe_cpp.cpp", "probe_cpp")):
        rc, msg = sh([cc, "-w", os.path.join(gen, src), "-o", os.path.join(gen, exe)] + inc, gen)
        if rc:
            out_problem("layout-probe", "probe_does_not_compile", cc, msg[-1200:])
            return
        outs.append(sh([os.path.join(gen, exe)], gen)[1])
    if outs[0] != outs[1]:
        diff = [(a, b) for a, b in zip(outs[0].split("\n"), outs[1].split("\n")) if a != b][:4]
        out_problem("layout", "c_and_cxx_layout_differ", "generated header", "sizeof/offsetof differ between C and C++: %r" % (diff,))
    return nstruct


def check_py(d, files, out_problem):
    from ..pyback import render_all_files
    gen = os.path.join(d, "gen_py")
    os.makedirs(gen, exist_ok=True)
    try:
        texts, _ = render_all_files(os.path.join(d, "t.bitproto"), "py", gen, lint=True)
    except Exception as e:
        out_problem("render-py", type(e).__name__, repo_site(e), exc_summary(e))
        return
    # duplicate top-level declarations
    for name, text in texts.items():
        try:
            mod = pyast.parse(text)
        except SyntaxError as e:
            out_problem("py-compile", "SyntaxError", "generated python", "%s: %s (line %s: %r)" % (name, e.msg, e.lineno, (e.text or "")[:80]))
            return
        seen = {}
        for s in mod.body:
            if isinstance(s, (pyast.ClassDef, pyast.FunctionDef)):
                if s.name in seen:
                    out_problem("py-duplicate", "duplicate_declaration", "generated python", "%s declares %s twice" % (name, s.name))
                seen[s.name] = 1
    # import in a fresh interpreter (module state of this process stays clean) and instantiate every message class
    code = (
        "import sys, importlib, dataclasses\n"
        "sys.path.insert(0, %r); sys.path.insert(0, %r)\n"
        "from bitprotolib import bp\n"
        "import t_bp\n"
        "n = 0\n"
        "for name in dir(t_bp):\n"
        "    c = getattr(t_bp, name)\n"
        "    if isinstance(c, type) and issubclass(c, bp.MessageBase) and c is not bp.MessageBase and c.__module__ == 't_bp':\n"
        "        o = c(); o2 = c(); n += 1\n"
        "        assert isinstance(c.BYTES_LENGTH, int)\n"
        "print('OK', n)\n" % (bind.PYLIB_DIR, gen))
    r = subprocess.run([sys.executable, "-c", code], capture_output=True, text=True, timeout=120, cwd=gen)
    if r.returncode != 0 or not r.stdout.startswith("OK"):
        last = (r.stderr.strip().split("\n") or [""])[-1]
        out_problem("py-import", last.split(":")[0][:40] or "failed", "generated python", r.stderr[-1500:])


def check_go(d, files, out_problem, optimize=False):
    from ..pyback import parse_file, renderer_classes
    seen = set()
    outputs = {}
    options = {}

    def rec(path):
        key = os.path.realpath(path)
        if key in seen:
            return
        seen.add(key)
        with quiet_stderr():
            p = parse_file(path, traditional_mode=optimize)
        for _, child in p.protos(recursive=False):
            rec(child.filepath)
        from ..pyback import lint_quietly
        lint_quietly(p)  # as the command line does by default
        r = renderer_classes("go")[0](p, outdir=d, **(dict(optimization_mode=True) if optimize else {}))
        outputs[r.out_filename] = r.render_string()
        options[r.out_filename] = p.get_option_as_string_or_raise("go.package_path")

    try:
        rec(os.path.join(d, "t.bitproto"))
    except Exception as e:
        out_problem("render-go", type(e).__name__, repo_site(e), exc_summary(e))
        return
    stems = {fn[:-3]: options[fn] for fn in outputs}
    for fn, text in outputs.items():
        try:
            ast = gofront.parse(text)
        except gofront.GoSyntaxError as e:
            out_problem("go-syntax", "does_not_parse", "generated go", "%s: %s" % (fn, e))
            return
        for p in gofront.static_check(ast):
            kind = "unused_import" if "is not used" in p else "duplicate" if ("redeclared" in p or "twice" in p) else "field_and_method" if "both a field and a method" in p else "undeclared"
            out_problem("go-static", kind, "generated go", "%s: %s" % (fn, p))


def run_unit(unit):
    _, tier, lo, hi = unit
    bind.bind()
    cs = combos(tier)[lo:hi]
    out = UnitOut()
    with Scratch() as sc:
        for k, combo in enumerate(cs):
            d = sc.sub("s%d" % k)
            files, tags = materialise(combo)
            for fn, tx in files.items():
                with open(os.path.join(d, fn), "w", newline="") as f:
                    f.write(tx)
            out.count("states")
            for n in combo:
                out.cls("feature:" + n)
            traditional = "extensible" not in combo and "empty-ext-message" not in combo
            desc = "features %s" % (list(combo),)

            def problem_for(lang):
                def out_problem(check, symptom, site, detail):
                    out.violation(check=check, symptom=symptom, site=site, features=["feat:" + n for n in combo] + tags + ["lang:" + lang],
                                  sig_features=[check, symptom, lang] + sorted(set(tags)),
                                  desc="%s [%s] :: %s" % (desc, lang, detail[:500]), detail=detail, schema=files, replay=dict(kind="c10", combo=list(combo)))
                return out_problem

            try:
                from bitproto.errors import ParserError
                from ..pyback import parse_file
                try:
                    with quiet_stderr():
                        proto = parse_file(os.path.join(d, "t.bitproto"))
                except ParserError as e:
                    raise bind.InfraError("FEAT state %s is not accepted by the compiler: %s" % (combo, e))
                with watchdog(300):
                    nst = check_c(d, files, False, None, problem_for("c"))
                    out.count("evaluations")
                    out.count("transitions")
                    if traditional:
                        check_c(d, files, True, None, problem_for("c -O"))
                        out.count("evaluations")
                        out.count("transitions")
                        for filt in (["Pen", "Box"] if (k % 4 == 0 or tier == "thorough") else []):
                            check_c(d, files, True, filt, problem_for("c -O -F"))
                            out.count("evaluations")
                            out.count("transitions")
                        check_go(d, files, problem_for("go -O"), optimize=True)
                        out.count("evaluations")
                    check_py(d, files, problem_for("py"))
                    check_go(d, files, problem_for("go"))
                    out.count("evaluations", 2)
                    out.count("transitions", 2)
                    out.count("traces", 3)
                    if combo:
                        out.count("nontrivial")
                    out.outcome(combo)
            except bind.InfraError:
                raise
            except Exception as e:
                out.violation(check="harness", symptom=type(e).__name__, site=repo_site(e), features=[], desc=desc + " :: " + str(e)[:300], detail=exc_summary(e), schema=files)
            if k % 25 == 0:
                out.sample(dict(features=list(combo), files=sorted(files), tags=tags))
    return out.result()


def units(tier):
    n = len(combos(tier))
    return [("P", tier, i, min(n, i + 8)) for i in range(0, n, 8)]


def main(pid, tier):
    t0 = time.time()
    acc = Acc()
    acc.merge(run_units(units(tier), run_unit, maxtasks=10))
    c = acc.counters
    g = []
    for f in FEATURES:
        if acc.classes.get("feature:" + f["name"], 0) < 1:
            g.append("feature %s never composed" % f["name"])
    cov = dict(states=c["states"], transitions=c["transitions"], traces_validated_against_impl=c["traces"], evaluations=c["evaluations"],
               distinct_nontrivial=c["nontrivial"], features=[f["name"] for f in FEATURES],
               rule="base schema x all combinations of <= %d of %d non-default features; per state: C standard mode (gcc -Werror=implicit-function-"
                    "declaration on every generated .c, every #include names a file actually written, link of all objects with a main calling the "
                    "whole declared API, g++ on the same translation unit, sizeof/offsetof probe compiled as C and as C++ must print identically), "
                    "C -O and -O -F for traditional states, Python (ast for duplicate declarations, import in a fresh interpreter, instantiate every "
                    "message class twice), Go standard and -O (gofront parse + static rules: declared identifiers, used imports, no duplicate "
                    "declarations, no field/method clash, the import path itself is user-arranged in Go and not checked); the codec scopes SING u COMB u TREE are "
                    "compiled by C01/C03/C19; non-trivial = at least one feature" % (2 if tier == "quick" else 3, len(FEATURES)),
               exhaustive=True, bound="feature combinations <= %d" % (2 if tier == "quick" else 3))
    return finish(PID, tier, acc, cov, t0, assumptions=["gcc 12 / g++ 12 / CPython 3.12 are the toolchains", "Go: bpmc/gofront static rules only (no type checking)"], guards=g)


def replay(payload):
    bind.bind()
    import bpmc.checks.c10 as me
    combo = tuple(payload["replay"]["combo"])
    saved = me.combos
    me.combos = lambda tier: [combo]
    try:
        res = run_unit(("P", "quick", 0, 1))
    finally:
        me.combos = saved
    if res.get("violations"):
        print("REPRODUCED: %s" % res["violations"][0].get("desc"))
        return 1
    print("NOT REPRODUCED")
    return 0
