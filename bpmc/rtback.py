"""Driver for bpmc/c/rt_harness.c: direct calls into lib/c/bitproto.c (C14, C06a)."""
import os
import struct
import subprocess
from typing import List, Tuple

from . import bind
from .cback import CBuildError, HarnessFault, run_cc

HERE = os.path.dirname(os.path.abspath(__file__))
SRC = os.path.join(HERE, "c", "rt_harness.c")

RT_VARIANTS = ("le-O0", "le-O2", "le-O3", "be-emu")

BP_TYPE_BOOL, BP_TYPE_INT, BP_TYPE_UINT, BP_TYPE_BYTE, BP_TYPE_ENUM, BP_TYPE_ALIAS = 1, 2, 3, 4, 5, 6


def build_rt(workdir: str, variant: str) -> str:
    os.makedirs(workdir, exist_ok=True)
    exe = os.path.join(workdir, "rt_" + variant.replace("-", "_"))
    lib = os.path.join(bind.CLIB_DIR, "bitproto.c")
    inc = ["-I", bind.CLIB_DIR]
    if variant.startswith("le-"):
        run_cc(["gcc", "-std=gnu11", "-w", "-" + variant[3:]] + inc + [SRC, lib, "-o", exe], workdir, "rt:" + variant)
    elif variant == "be-emu":
        so = os.path.join(workdir, "libbpbe.so")
        run_cc(["gcc", "-std=gnu11", "-w", "-O1", "-fPIC", "-shared", "-DBP_BIG_ENDIAN=1"] + inc + [lib, "-o", so], workdir, "rt:libbe")
        run_cc(["gcc", "-std=gnu11", "-w", "-O1", "-DRT_BE_SHIM", "-DBP_BIG_ENDIAN=1"] + inc +
               [SRC, "-L", workdir, "-lbpbe", "-ldl", "-Wl,-rpath," + workdir, "-o", exe], workdir, "rt:be-emu")
    else:
        raise ValueError(variant)
    return exe


class Rt:
    def __init__(self, exe: str):
        self.p = subprocess.Popen([exe], stdin=subprocess.PIPE, stdout=subprocess.PIPE, stderr=subprocess.PIPE)
        self.pending: List[Tuple[str, tuple]] = []
        self.buf = bytearray()
        self.inflight = 0

    def _fail(self, what):
        try:
            self.p.stdin.close()
        except Exception:
            pass
        err = ""
        try:
            err = self.p.stderr.read().decode(errors="replace")
        except Exception:
            pass
        rc = self.p.wait()
        raise HarnessFault("%s (rt harness exit %s)" % (what, rc), err[-2000:])

    def _read(self, n):
        d = self.p.stdout.read(n)
        if len(d) != n:
            self._fail("short read %d/%d" % (len(d), n))
        return d

    # -- request builders: queue, then run() returns results in order
    def q_copy(self, n, di, si, dst: bytes, src: bytes):
        self.buf += b"c" + struct.pack("<IHHII", n, di, si, len(dst), len(src)) + dst + src
        self.pending.append(("c", (len(dst),)))
        self.inflight += 20 + 2 * len(dst) + len(src)

    def q_base(self, is_encode, kind, nbits, bitoff, data: bytes, wire: bytes):
        self.buf += b"b" + struct.pack("<BBHHHH", int(is_encode), kind, nbits, bitoff, len(data), len(wire)) + data + wire
        self.pending.append(("b", (len(data), len(wire))))
        self.inflight += 16 + 2 * (len(data) + len(wire))

    def q_array(self, is_encode, ext, cap, flag, to_flag, nbits, esize, bitoff, data: bytes, wire: bytes):
        assert len(data) == cap * esize
        self.buf += b"a" + struct.pack("<BBHBBHHHH", int(is_encode), int(ext), cap, flag, to_flag, nbits, esize, bitoff, len(wire)) + data + wire
        self.pending.append(("a", (len(data), len(wire))))
        self.inflight += 20 + 2 * (len(data) + len(wire))

    def full(self):
        return self.inflight > 12000

    def run(self):
        """Send queued requests, return their results."""
        if not self.pending:
            return []
        try:
            self.p.stdin.write(bytes(self.buf) + b"F")
            self.p.stdin.flush()
        except BrokenPipeError:
            self._fail("broken pipe")
        out = []
        for kind, lens in self.pending:
            if kind == "c":
                d = self._read(1 + lens[0])
                out.append((d[0], d[1:]))
            else:
                d = self._read(1 + lens[0] + lens[1] + 4)
                out.append((d[0], d[1:1 + lens[0]], d[1 + lens[0]:1 + lens[0] + lens[1]], struct.unpack("<I", d[-4:])[0]))
        self.pending = []
        self.buf = bytearray()
        self.inflight = 0
        return out

    def close(self):
        try:
            self.p.stdin.write(b"Q")
            self.p.stdin.close()
        except Exception:
            pass
        try:
            self.p.wait(timeout=5)
        except Exception:
            self.p.kill()
        for s in (self.p.stdout, self.p.stderr):
            try:
                s.close()
            except Exception:
                pass


def storage_size(nbits: int) -> int:
    return 1 if nbits <= 8 else 2 if nbits <= 16 else 4 if nbits <= 32 else 8
