"""setup_cmd: anchors of the reference model (DESIGN 3.5) and tool presence.

1. documentation examples (README, docs/language.rst, docs/faq.rst)
2. independent executable specification: a flat unsigned message has the memory image of a
   packed GCC bit-field struct on a little-endian host (docs/faq.rst) - compiled and compared
3. self-consistency: decode(encode(v)) == v on the whole SING(quick) scope
Builds nothing that depends on /repo.
"""
import itertools
import os
import shutil
import subprocess
import sys
import tempfile

from . import bind, ref, scope, values
from .ir import Array, Bool, Byte, Field, Int, MessageDef, Named, Uint


def fail(msg):
    print("SETUP-FAILED: " + msg)
    sys.exit(2)


def msg(name, ext, *fields):
    return MessageDef(name, ext, tuple(Field(t, "f%d" % (i + 1), n) for i, (t, n) in enumerate(fields)))


def doc_anchors():
    # README: Data{7,7,31,15,2047,63} -> FF FF FF FF
    data = msg("Data", False, (Uint(3), 1), (Uint(3), 2), (Uint(5), 3), (Uint(4), 4), (Uint(11), 6), (Uint(6), 7))
    assert ref.nbits(data) == 32 and ref.nbytes(data) == 4
    assert ref.encode(data, [7, 7, 31, 15, 2047, 63]) == b"\xff\xff\xff\xff"
    # faq.rst: struct Data {a:3,b:3,c:5,d:7} = {1,5,28,70}
    d2 = msg("Data", False, (Uint(3), 1), (Uint(3), 2), (Uint(5), 3), (Uint(7), 4))
    v = 1 | (5 << 3) | (28 << 6) | (70 << 11)
    assert ref.encode(d2, [1, 5, 28, 70]) == v.to_bytes(3, "little")
    # language.rst sizes
    assert ref.nbits(msg("ExtensibleMessage", True, (Bool(), 1))) == 17
    inner = MessageDef("Inner", True, ())
    outer = MessageDef("Outer", True, (inner,))
    assert ref.nbytes(inner) == 2 and ref.nbytes(outer) == 2  # "Outer occupies 2+2 bytes" counts a field of Inner
    outer2 = MessageDef("Outer", True, (inner, Field(Named(inner, "Inner"), "i", 1)))
    assert ref.nbytes(outer2) == 4
    assert ref.nbits(Array(Byte(), 4, True)) == 32 + 16
    # extensible prefix values
    m = msg("P", True, (Uint(3), 1))
    assert ref.encode(m, [5]) == (19 | (5 << 16)).to_bytes(3, "little")
    a = msg("Q", False, (Array(Uint(4), 2, True), 1))
    assert ref.encode(a, [1, 2]) == (2 | (1 << 16) | (2 << 20)).to_bytes(3, "little")
    # signed: two's complement truncated
    s = msg("S", False, (Int(5), 1), (Int(3), 2))
    assert ref.encode(s, [-1, -4]) == bytes([0x1F | (0x4 << 5)])
    assert ref.decode_same(s, bytes([0x9F])) == [-1, -4]


def gcc_bitfield_anchor():
    """Flat unsigned messages of <= 3 fields over W(quick) vs a packed bit-field struct."""
    gcc = shutil.which("gcc")
    if not gcc:
        fail("gcc not found")
    widths = (1, 3, 7, 8, 9, 16, 17, 31, 32, 33, 63, 64)
    combos = [c for k in (1, 2, 3) for c in itertools.product(widths, repeat=k)]
    d = tempfile.mkdtemp(prefix="bpmc-setup-", dir=bind.scratch_root())
    try:
        src = ["#include <stdint.h>", "#include <stdio.h>", "#include <string.h>"]
        body = []
        expect = []
        for ci, combo in enumerate(combos):
            src.append("struct S%d {" % ci)
            for fi, w in enumerate(combo):
                src.append("  uint64_t f%d : %d;" % (fi, w))
            src.append("} __attribute__((packed, aligned(1)));")
            m = msg("S", False, *[(Uint(w), i + 1) for i, w in enumerate(combo)])
            leaves = ref.value_leaves(m)
            vecs = values.basis(leaves)[:40]
            for vi, vec in enumerate(vecs):
                body.append("{ struct S%d s; memset(&s,0,sizeof s); %s p(%d,%d,(unsigned char*)&s,%d); }" % (
                    ci, " ".join("s.f%d = %dULL;" % (i, v) for i, v in enumerate(vec)), ci, vi, ref.nbytes(m)))
                expect.append("%d %d %s" % (ci, vi, ref.encode(m, vec).hex()))
        src.append("static void p(int c,int v,unsigned char*b,int n){printf(\"%d %d \",c,v);for(int i=0;i<n;i++)printf(\"%02x\",b[i]);printf(\"\\n\");}")
        src.append("int main(void){")
        src.extend(body)
        src.append("return 0;}")
        with open(os.path.join(d, "a.c"), "w") as f:
            f.write("\n".join(src))
        r = subprocess.run([gcc, "-O0", "-w", "-o", os.path.join(d, "a"), os.path.join(d, "a.c")], capture_output=True, text=True)
        if r.returncode:
            fail("gcc bit-field anchor did not compile: " + r.stderr[-500:])
        got = subprocess.run([os.path.join(d, "a")], capture_output=True, text=True).stdout.split("\n")
        got = [g for g in got if g]
        if got != expect:
            bad = [(g, e) for g, e in zip(got, expect) if g != e][:3]
            fail("reference encoder disagrees with packed bit-field struct: %r" % (bad,))
        return len(expect)
    finally:
        shutil.rmtree(d, ignore_errors=True)


def self_consistency():
    n = 0
    for c in scope.sing_space("quick")[::7]:
        lay = ref.layout(c.msg)
        leaves = [l for l in lay if l.is_value]
        if values.has_enum_without_members(leaves):
            continue
        for vec in values.basis(leaves)[:60]:
            b = ref.encode(c.msg, vec, lay)
            if ref.decode_same(c.msg, b, lay) != vec or ref.decode_dynamic(c.msg, b) != vec:
                fail("reference decode(encode(v)) != v for %s %s" % (c.desc, vec))
            if len(b) != ref.nbytes(c.msg):
                fail("reference length")
            n += 1
    return n


def main():
    os.makedirs(os.path.join(os.path.dirname(os.path.dirname(os.path.abspath(__file__))), "evidence"), exist_ok=True)
    doc_anchors()
    n1 = gcc_bitfield_anchor()
    n2 = self_consistency()
    for tool in ("gcc", "g++", "clang"):
        if not shutil.which(tool):
            fail("%s not found" % tool)
    try:
        import ply  # noqa
    except ImportError:
        fail("ply not importable by %s" % sys.executable)
    print("setup ok: doc anchors; %d bit-field comparisons; %d self-consistency round trips" % (n1, n2))


if __name__ == "__main__":
    main()
