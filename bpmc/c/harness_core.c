/* Stand-alone harness core (DESIGN 3.6).  Included by a generated file that defines
 *   struct Row rows[]; static const unsigned NROWS;
 * Protocol on stdin/stdout (little-endian u32 framing):
 *   'T'                                   -> text table, terminated by "END\n"
 *   'E' row n  (n x struct image)         -> n x (flag byte, nbytes wire)
 *   'D' row n  (n x nbytes wire)          -> n x (flag byte, struct image)
 *   'X' row n wl (n x wl wire, wl >= nbytes) -> n x (flag byte, struct image)
 *   'J' row    (struct image)             -> u32 len, text
 *   'Q'                                   -> exit
 * Every struct and every wire buffer is used twice: flush against a PROT_NONE page at its
 * end, and flush against a PROT_NONE page at its start.  flag bit0: the two placements
 * disagree; bit1: encode modified the struct; bit2: return value != 0.
 */
#include <signal.h>
#include <stdint.h>
#include <stdio.h>
#include <stdlib.h>
#include <string.h>
#include <sys/mman.h>
#include <unistd.h>

#ifdef RT_BE_SHIM
/* Big-endian emulation (see rt_harness.c): the runtime is a shared object built with
 * -DBP_BIG_ENDIAN, storage is byte-reversed by the driver, and the one native access
 * (the sign fix) gets the view of a real big-endian host. */
#include <dlfcn.h>
#include "bitproto.h"
typedef void (*signfix_fn)(int, int, struct BpProcessorContext *, void *);
static void swapn(unsigned char *p, int n) {
    for (int i = 0; i < n / 2; i++) {
        unsigned char t = p[i];
        p[i] = p[n - 1 - i];
        p[n - 1 - i] = t;
    }
}
void BpHandleIntSignAfterEndecode(int size, int nbits, struct BpProcessorContext *ctx, void *data) {
    static signfix_fn real = NULL;
    if (!real) real = (signfix_fn)dlsym(RTLD_NEXT, "BpHandleIntSignAfterEndecode");
    if (!real) _exit(9);
    swapn((unsigned char *)data, size);
    real(size, nbits, ctx, data);
    swapn((unsigned char *)data, size);
}
#endif

typedef int (*endec_fn)(void *, unsigned char *);
typedef int (*json_fn)(void *, char *);

struct Row {
    const char *name;
    uint32_t size;
    uint32_t nbytes;
    endec_fn enc;
    endec_fn dec;
    json_fn json;
    uint32_t nleaves;
    const uint32_t *off;
    const uint32_t *sz;
};

#ifndef HARNESS_AREA
#define HARNESS_AREA (1u << 20)
#endif

static volatile char cur_op = '-';
static volatile uint32_t cur_row = 0, cur_item = 0, cur_place = 0;

#ifndef HARNESS_NO_SIGHANDLER
static void on_fault(int sig) {
    char buf[160];
    int n = snprintf(buf, sizeof buf, "FAULT sig=%d op=%c row=%u item=%u place=%u\n", sig, cur_op,
                     (unsigned)cur_row, (unsigned)cur_item, (unsigned)cur_place);
    if (write(2, buf, (size_t)n) < 0) {
    }
    _exit(70);
}
#endif

struct Area {
    unsigned char *lo; /* first usable byte (preceded by a PROT_NONE page) */
    unsigned char *hi; /* one past the last usable byte (followed by a PROT_NONE page) */
};

static struct Area area_new(size_t usable) {
    long pg = sysconf(_SC_PAGESIZE);
    size_t len = usable + 2 * (size_t)pg;
    unsigned char *p = mmap(NULL, len, PROT_READ | PROT_WRITE, MAP_PRIVATE | MAP_ANONYMOUS, -1, 0);
    if (p == MAP_FAILED) {
        perror("mmap");
        exit(3);
    }
    mprotect(p, (size_t)pg, PROT_NONE);
    mprotect(p + pg + usable, (size_t)pg, PROT_NONE);
    struct Area a = {p + pg, p + pg + usable};
    return a;
}

/* place==0: flush against the end guard; place==1: flush against the start guard */
static unsigned char *area_place(struct Area *a, size_t n, int place) {
    if (place == 0) return a->hi - n;
    return a->lo;
}

static void rd(void *p, size_t n) {
    if (n && fread(p, 1, n, stdin) != n) exit(4);
}
static void wr(const void *p, size_t n) {
    if (n && fwrite(p, 1, n, stdout) != n) exit(5);
}
static uint32_t rd32(void) {
    uint32_t v;
    rd(&v, 4);
    return v;
}

extern struct Row rows[];
extern const unsigned NROWS;

int harness_main(void) {
#ifndef HARNESS_NO_SIGHANDLER
    struct sigaction sa;
    memset(&sa, 0, sizeof sa);
    sa.sa_handler = on_fault;
    sigaction(SIGSEGV, &sa, NULL);
    sigaction(SIGBUS, &sa, NULL);
#endif
    struct Area as = area_new(HARNESS_AREA), aw = area_new(HARNESS_AREA), aj = area_new(HARNESS_AREA);
    unsigned char *img = malloc(HARNESS_AREA), *out0 = malloc(HARNESS_AREA), *out1 = malloc(HARNESS_AREA);
    for (;;) {
        int op = fgetc(stdin);
        if (op == EOF || op == 'Q') break;
        cur_op = (char)op;
        if (op == 'T') {
            for (unsigned r = 0; r < NROWS; r++) {
                printf("ROW %u %s %u %u %u", r, rows[r].name, rows[r].size, rows[r].nbytes, rows[r].nleaves);
                for (unsigned k = 0; k < rows[r].nleaves; k++) printf(" %u:%u", rows[r].off[k], rows[r].sz[k]);
                printf("\n");
            }
            printf("END\n");
            fflush(stdout);
            continue;
        }
        uint32_t r = rd32();
        if (r >= NROWS) exit(6);
        struct Row *row = &rows[r];
        cur_row = r;
        if (row->size > HARNESS_AREA || row->nbytes > HARNESS_AREA) exit(7);
        if (op == 'E' || op == 'D') {
            uint32_t n = rd32();
            for (uint32_t k = 0; k < n; k++) {
                cur_item = k;
                unsigned char flag = 0;
                if (op == 'E') {
                    rd(img, row->size);
                    for (int place = 0; place < 2; place++) {
                        cur_place = (uint32_t)place;
                        unsigned char *s = area_place(&as, row->size, place);
                        unsigned char *w = area_place(&aw, row->nbytes, place);
                        memcpy(s, img, row->size);
                        memset(w, 0, row->nbytes);
                        int rc = row->enc(s, w);
                        if (rc != 0) flag |= 4;
                        if (memcmp(s, img, row->size) != 0) flag |= 2;
                        memcpy(place ? out1 : out0, w, row->nbytes);
                    }
                    if (memcmp(out0, out1, row->nbytes) != 0) flag |= 1;
                    wr(&flag, 1);
                    wr(out0, row->nbytes);
                } else {
                    rd(img, row->nbytes);
                    for (int place = 0; place < 2; place++) {
                        cur_place = (uint32_t)place;
                        unsigned char *s = area_place(&as, row->size, place);
                        unsigned char *w = area_place(&aw, row->nbytes, place);
                        memset(s, 0, row->size);
                        memcpy(w, img, row->nbytes);
                        int rc = row->dec(s, w);
                        if (rc != 0) flag |= 4;
                        if (memcmp(w, img, row->nbytes) != 0) flag |= 2;
                        memcpy(place ? out1 : out0, s, row->size);
                    }
                    if (memcmp(out0, out1, row->size) != 0) flag |= 1;
                    wr(&flag, 1);
                    wr(out0, row->size);
                }
            }
            fflush(stdout);
        } else if (op == 'X') {
            /* decode a buffer of explicit length wl (>= nbytes): forward compatibility (C05) */
            uint32_t n = rd32();
            uint32_t wl = rd32();
            if (wl > HARNESS_AREA) exit(7);
            for (uint32_t k = 0; k < n; k++) {
                cur_item = k;
                unsigned char flag = 0;
                rd(img, wl);
                for (int place = 0; place < 2; place++) {
                    cur_place = (uint32_t)place;
                    unsigned char *s = area_place(&as, row->size, place);
                    unsigned char *w = area_place(&aw, wl, place);
                    memset(s, 0, row->size);
                    memcpy(w, img, wl);
                    int rc = row->dec(s, w);
                    if (rc != 0) flag |= 4;
                    if (memcmp(w, img, wl) != 0) flag |= 2;
                    memcpy(place ? out1 : out0, s, row->size);
                }
                if (memcmp(out0, out1, row->size) != 0) flag |= 1;
                wr(&flag, 1);
                wr(out0, row->size);
            }
            fflush(stdout);
        } else if (op == 'J') {
            rd(img, row->size);
            cur_place = 0;
            unsigned char *s = area_place(&as, row->size, 0);
            memcpy(s, img, row->size);
            char *j = (char *)aj.lo;
            /* the buffer is NOT zeroed: a re-used buffer holds older, longer text */
            memset(j, '#', 65536);
            j[65535] = 0;
            uint32_t len = 0;
            if (row->json) {
                int rc = row->json(s, j);
                len = (uint32_t)strlen(j);
                if (rc != (int)len) len |= 0x80000000u; /* returned length != length of the C string */
                if (len > 60000u) len = 60000u | 0x80000000u;
            } else {
                len = 0xFFFFFFFFu;
            }
            wr(&len, 4);
            if (len != 0xFFFFFFFFu) wr(j, len & 0x7FFFFFFFu);
            fflush(stdout);
        } else {
            exit(8);
        }
    }
    return 0;
}
