/* Direct entry points of lib/c/bitproto.c (C14, C06a).  Binary protocol, little-endian.
 *  'c' u32 n, u16 di, u16 si, u32 dstlen, u32 srclen, dst[dstlen] (initial), src[srclen]
 *        -> dst[dstlen]                               BpCopyBufferBits(n, dst, src, di, si)
 *  'b' u8 is_encode, u8 kind(0 base,1 int,2 base+separate sign fix with swapped view), u16 nbits, u16 bitoff,
 *      u16 size, u16 wirelen, data[size], wire[wirelen]
 *        -> data[size], wire[wirelen], u32 ctx.i      BpEndecodeBaseType / BpEndecodeInt
 *  'a' u8 is_encode, u8 ext, u16 cap, u8 flag, u8 to_flag, u16 nbits, u16 esize, u16 bitoff, u16 wirelen,
 *      data[cap*esize], wire[wirelen]
 *        -> data, wire, u32 ctx.i                     BpEndecodeArray (element processors NULL: base kinds only)
 * All buffers are placed flush against a PROT_NONE page at their END (place 0) and, in a
 * second execution, at their START (place 1); the two results must agree (flag byte first).
 */
#include <signal.h>
#include <stdint.h>
#include <stdio.h>
#include <stdlib.h>
#include <string.h>
#include <sys/mman.h>
#include <unistd.h>

#include "bitproto.h"

#ifdef RT_BE_SHIM
/* Big-endian emulation: storage is handed over byte-reversed.  BpHandleIntSignAfterEndecode
 * reads the integer natively; give that one access the view a real big-endian host has by
 * swapping the bytes around the call.  The library is a shared object, so this definition
 * preempts the library's own for calls made inside the library. */
#include <dlfcn.h>
typedef void (*signfix_fn)(int, int, struct BpProcessorContext *, void *);
static void swapn(unsigned char *p, int n) {
    for (int i = 0; i < n / 2; i++) {
        unsigned char t = p[i];
        p[i] = p[n - 1 - i];
        p[n - 1 - i] = t;
    }
}
void BpHandleIntSignAfterEndecode(int size, int nbits, struct BpProcessorContext *ctx, void *data) {
    static signfix_fn real = NULL;
    if (!real) real = (signfix_fn)dlsym(RTLD_NEXT, "BpHandleIntSignAfterEndecode");
    if (!real) _exit(9);
    swapn((unsigned char *)data, size);
    real(size, nbits, ctx, data);
    swapn((unsigned char *)data, size);
}
#endif

static volatile char cur_op = '-';
static volatile uint32_t cur_item = 0, cur_place = 0;
static void on_fault(int sig) {
    char buf[128];
    int n = snprintf(buf, sizeof buf, "FAULT sig=%d op=%c item=%u place=%u\n", sig, cur_op, (unsigned)cur_item, (unsigned)cur_place);
    if (write(2, buf, (size_t)n) < 0) {
    }
    _exit(70);
}

struct Area {
    unsigned char *lo, *hi;
};
static struct Area area_new(size_t usable) {
    long pg = sysconf(_SC_PAGESIZE);
    unsigned char *p = mmap(NULL, usable + 2 * (size_t)pg, PROT_READ | PROT_WRITE, MAP_PRIVATE | MAP_ANONYMOUS, -1, 0);
    if (p == MAP_FAILED) exit(3);
    mprotect(p, (size_t)pg, PROT_NONE);
    mprotect(p + pg + usable, (size_t)pg, PROT_NONE);
    struct Area a = {p + pg, p + pg + usable};
    return a;
}
static unsigned char *place_in(struct Area *a, size_t n, int place) { return place ? a->lo : a->hi - n; }
static void rd(void *p, size_t n) {
    if (n && fread(p, 1, n, stdin) != n) exit(4);
}
static void wr(const void *p, size_t n) {
    if (n && fwrite(p, 1, n, stdout) != n) exit(5);
}
static uint32_t rd32(void) { uint32_t v; rd(&v, 4); return v; }
static uint16_t rd16(void) { uint16_t v; rd(&v, 2); return v; }
static uint8_t rd8(void) { uint8_t v; rd(&v, 1); return v; }

#define MAXB 65536
static unsigned char in_a[MAXB], in_b[MAXB], out_a[2][MAXB], out_b[2][MAXB];

int main(void) {
    struct sigaction sa;
    memset(&sa, 0, sizeof sa);
    sa.sa_handler = on_fault;
    sigaction(SIGSEGV, &sa, NULL);
    sigaction(SIGBUS, &sa, NULL);
    struct Area A = area_new(1 << 17), B = area_new(1 << 17);
    uint32_t item = 0;
    for (;;) {
        int op = fgetc(stdin);
        if (op == EOF || op == 'Q') break;
        if (op == 'F') { fflush(stdout); continue; }
        cur_op = (char)op;
        cur_item = item++;
        if (op == 'c') {
            uint32_t n = rd32();
            uint16_t di = rd16(), si = rd16();
            uint32_t dl = rd32(), sl = rd32();
            if (dl > MAXB || sl > MAXB) exit(6);
            rd(in_a, dl);
            rd(in_b, sl);
            for (int place = 0; place < 2; place++) {
                cur_place = (uint32_t)place;
                unsigned char *d = place_in(&A, dl, place), *s = place_in(&B, sl, place);
                memcpy(d, in_a, dl);
                memcpy(s, in_b, sl);
                BpCopyBufferBits((int)n, d, s, di, si);
                memcpy(out_a[place], d, dl);
                memcpy(out_b[place], s, sl);
            }
            unsigned char flag = (memcmp(out_a[0], out_a[1], dl) != 0) | ((memcmp(out_b[0], in_b, sl) != 0) << 1);
            wr(&flag, 1);
            wr(out_a[0], dl);
        } else if (op == 'b') {
            uint8_t is_encode = rd8(), kind = rd8();
            uint16_t nbits = rd16(), bitoff = rd16(), size = rd16(), wl = rd16();
            rd(in_a, size);
            rd(in_b, wl);
            uint32_t ci[2];
            for (int place = 0; place < 2; place++) {
                cur_place = (uint32_t)place;
                unsigned char *d = place_in(&A, size, place), *w = place_in(&B, wl, place);
                memcpy(d, in_a, size);
                memcpy(w, in_b, wl);
                struct BpProcessorContext ctx = BpProcessorContext(is_encode != 0, w);
                ctx.i = bitoff;
                if (kind == 1)
                    BpEndecodeInt(size, nbits, &ctx, d);
                else
                    BpEndecodeBaseType(nbits, &ctx, d);
                ci[place] = (uint32_t)ctx.i;
                memcpy(out_a[place], d, size);
                memcpy(out_b[place], w, wl);
            }
            unsigned char flag = (memcmp(out_a[0], out_a[1], size) != 0) | ((memcmp(out_b[0], out_b[1], wl) != 0) << 1) | ((ci[0] != ci[1]) << 2);
            wr(&flag, 1);
            wr(out_a[0], size);
            wr(out_b[0], wl);
            wr(&ci[0], 4);
        } else if (op == 'a') {
            uint8_t is_encode = rd8(), ext = rd8();
            uint16_t cap = rd16();
            uint8_t eflag = rd8(), to_flag = rd8();
            uint16_t nbits = rd16(), esize = rd16(), bitoff = rd16(), wl = rd16();
            uint32_t dl = (uint32_t)cap * esize;
            if (dl > MAXB) exit(6);
            rd(in_a, dl);
            rd(in_b, wl);
            uint32_t ci[2];
            for (int place = 0; place < 2; place++) {
                cur_place = (uint32_t)place;
                unsigned char *d = place_in(&A, dl, place), *w = place_in(&B, wl, place);
                memcpy(d, in_a, dl);
                memcpy(w, in_b, wl);
                struct BpProcessorContext ctx = BpProcessorContext(is_encode != 0, w);
                ctx.i = bitoff;
                struct BpType et = {eflag, nbits, esize, NULL, NULL, to_flag};
                struct BpArrayDescriptor desc = BpArrayDescriptor(ext != 0, cap, et);
                BpEndecodeArray(&desc, &ctx, d);
                ci[place] = (uint32_t)ctx.i;
                memcpy(out_a[place], d, dl);
                memcpy(out_b[place], w, wl);
            }
            unsigned char flag = (memcmp(out_a[0], out_a[1], dl) != 0) | ((memcmp(out_b[0], out_b[1], wl) != 0) << 1) | ((ci[0] != ci[1]) << 2);
            wr(&flag, 1);
            wr(out_a[0], dl);
            wr(out_b[0], wl);
            wr(&ci[0], 4);
        } else {
            exit(8);
        }
    }
    fflush(stdout);
    return 0;
}
