"""Explorer core: canonical de-duplication, breadth-first search over event histories,
sharded parallel execution with deterministic merge, watchdog, vacuity guards."""
import collections
import hashlib
import multiprocessing
import os
import random
import sys
import time
import traceback
from typing import Any, Callable, Dict, Iterable, List, Optional, Tuple

from . import bind

NPROC = int(os.environ.get("BPMC_NPROC", "0")) or min(16, os.cpu_count() or 4)


def seed() -> int:
    try:
        return int(os.environ.get("VERIF_SEED", "0"))
    except ValueError:
        return 0


def sha(*parts) -> str:
    h = hashlib.sha256()
    for p in parts:
        h.update(repr(p).encode() if not isinstance(p, (bytes, str)) else (p.encode() if isinstance(p, str) else p))
        h.update(b"\0")
    return h.hexdigest()


def bfs(initial: Iterable[Any], successors: Callable[[Any], Iterable[Tuple[Any, Any]]],
        canon: Callable[[Any], Any], max_depth: int, max_states: Optional[int] = None):
    """Breadth-first search. `successors(state)` yields (event, next_state).
    Returns (states in BFS order as (state, depth, history), transitions, capped)."""
    seen = {}
    order = []
    frontier = collections.deque()
    for s in initial:
        k = canon(s)
        if k not in seen:
            seen[k] = len(order)
            order.append((s, 0, ()))
            frontier.append((s, 0, ()))
    transitions = 0
    capped = False
    while frontier:
        s, d, hist = frontier.popleft()
        if d >= max_depth:
            continue
        for ev, nxt in successors(s):
            transitions += 1
            k = canon(nxt)
            if k in seen:
                continue
            if max_states is not None and len(order) >= max_states:
                capped = True
                continue
            seen[k] = len(order)
            h2 = hist + (ev,)
            order.append((nxt, d + 1, h2))
            frontier.append((nxt, d + 1, h2))
    return order, transitions, capped


class Violation(dict):
    """A property violation found on one execution.

    keys: check (sub-check name), symptom (class), site (innermost /repo frame or
    diagnostic class), features (list of tags), desc, detail, replay (payload to re-execute)
    """


def repo_site(tb_exc: BaseException) -> str:
    """Innermost frame inside /repo (or inside generated code) of an exception's traceback."""
    frames = traceback.extract_tb(tb_exc.__traceback__)
    site = ""
    for fr in frames:
        fn = fr.filename
        if fn.startswith(bind.REPO + "/"):
            site = "%s:%s" % (os.path.relpath(fn, bind.REPO), fr.name)
        elif fn.endswith("_bp.py") or "<generated" in fn:
            site = "generated:%s" % _norm_generated(fr.name)
    return site or "unknown"


_GEN_FUNCS = {"bp_set_byte", "bp_get_byte", "bp_get_accessor", "bp_process_int", "bp_processor", "encode", "decode",
              "__post_init__", "<module>", "<lambda>", "dict_factory", "<listcomp>", "<dictcomp>"}


def _norm_generated(name: str) -> str:
    if name in _GEN_FUNCS:
        return name
    if name.startswith("_get_"):
        return "_get_*"
    if name.startswith("_set_"):
        return "_set_*"
    if name.startswith("bp_processor_"):
        return "bp_processor_*"
    if name.startswith("bp_default_factory_"):
        return "bp_default_factory_*"
    return "<class-body>"


def exc_summary(e: BaseException) -> str:
    return "".join(traceback.format_exception(type(e), e, e.__traceback__))[-2500:]


# -------------------------------------------------------------------- parallel runner
_WORKER_FN = None


def _init_worker(fn):
    global _WORKER_FN
    _WORKER_FN = fn
    bind.bind()


def _run_one(arg):
    idx, unit = arg
    t0 = time.time()
    try:
        r = _WORKER_FN(unit)
    except bind.InfraError as e:
        r = {"infra": "InfraError: %s" % e}
    except BaseException as e:  # harness bug: never report as a violation
        r = {"infra": "harness exception in unit %r: %s" % (idx, exc_summary(e))}
    r["_idx"] = idx
    r["_wall"] = time.time() - t0
    return r


def run_units(units: List[Any], fn: Callable[[Any], Dict[str, Any]], nproc: Optional[int] = None,
              maxtasks: Optional[int] = 40, deadline: Optional[float] = None) -> List[Dict[str, Any]]:
    """Run fn over units in worker processes. VERIF_SEED only permutes dispatch order;
    results are returned in unit order, so everything downstream is seed-independent."""
    nproc = nproc or NPROC
    t_start = time.time()
    order = list(range(len(units)))
    random.Random(seed()).shuffle(order)
    args = [(i, units[i]) for i in order]
    results: List[Optional[Dict[str, Any]]] = [None] * len(units)
    if nproc <= 1 or len(units) <= 1:
        _init_worker(fn)
        for a in args:
            if deadline and time.time() > deadline:
                break
            r = _run_one(a)
            results[r["_idx"]] = r
    else:
        ctx = multiprocessing.get_context("fork")
        with ctx.Pool(nproc, initializer=_init_worker, initargs=(fn,), maxtasksperchild=maxtasks) as pool:
            it = pool.imap_unordered(_run_one, args, chunksize=1)
            while True:
                try:
                    if deadline:
                        left = deadline - time.time()
                        if left <= 0:
                            raise multiprocessing.TimeoutError()
                        r = it.next(timeout=left)
                    else:
                        r = next(it)
                except StopIteration:
                    break
                except multiprocessing.TimeoutError:
                    pool.terminate()
                    break
                results[r["_idx"]] = r
                if os.environ.get("BPMC_PROGRESS"):
                    done = sum(1 for x in results if x is not None)
                    if done % 25 == 0:
                        print("progress: %d/%d units, %.0f s" % (done, len(units), time.time() - t_start), file=sys.stderr, flush=True)
    return results  # entries may be None if a deadline cut the run


class Acc:
    """Accumulates coverage counters and violations across units (merge is order-stable)."""

    def __init__(self):
        self.counters = collections.Counter()
        self.classes = collections.Counter()  # vacuity-guard classes hit
        self.outcomes = set()
        self.samples: List[Any] = []
        self.violations: List[Violation] = []
        self.infra: List[str] = []
        self.units_done = 0
        self.units_total = 0

    def merge(self, results):
        self.units_total += len(results)
        for r in results:
            if r is None:
                continue
            self.units_done += 1
            if "infra" in r:
                self.infra.append(r["infra"])
                continue
            for k, v in r.get("counters", {}).items():
                self.counters[k] += v
            for k, v in r.get("classes", {}).items():
                self.classes[k] += v
            for o in r.get("outcomes", ()):
                if len(self.outcomes) < 2_000_000:
                    self.outcomes.add(o)
            for s in r.get("samples", ()):
                if len(self.samples) < 8:
                    self.samples.append(s)
            self.violations.extend(r.get("violations", ()))


class UnitOut:
    """What a unit returns (picklable dict builder)."""

    def __init__(self):
        self.counters = collections.Counter()
        self.classes = collections.Counter()
        self.outcomes = set()
        self.samples = []
        self.violations = []

    def count(self, k, n=1):
        self.counters[k] += n

    def cls(self, k, n=1):
        self.classes[k] += n

    def outcome(self, *parts):
        # a vacuity indicator ("did anything differ at all"), not a result: bounded per unit so that sweeps with tens of
        # millions of executions do not carry tens of millions of digests around
        if len(self.outcomes) < 100_000:
            self.outcomes.add(hashlib.blake2b(repr(parts).encode(), digest_size=8).hexdigest())

    def sample(self, s):
        if len(self.samples) < 3:
            self.samples.append(s)

    def violation(self, **kw):
        # bound the number carried per unit per signature
        sig = (kw.get("check"), kw.get("symptom"), kw.get("site"))
        n = sum(1 for v in self.violations if (v.get("check"), v.get("symptom"), v.get("site")) == sig)
        self.counters["violations_raw"] += 1
        if n < 3:
            self.violations.append(Violation(kw))

    def result(self):
        return dict(counters=dict(self.counters), classes=dict(self.classes), outcomes=list(self.outcomes),
                    samples=self.samples, violations=self.violations)
