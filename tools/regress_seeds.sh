#!/bin/bash
# usage: regress_seeds.sh <scratch worktree of /repo> <checkout of /verif to run> [seed names...]
# Runs the own check of every stored seed (quick tier) and prints one line per seed; evidence is written in <checkout>, not in /verif.
repo=$1; vdir=$2; shift 2
cd /verif
names=${@:-$(ls seeded | sort)}
for n in $names; do
  pid=${n%%_*}
  SEED_REPO=$repo SEED_LABEL=@final VERIF_DIR=$vdir /venv/bin/python tools/try_seed.py $n $pid 2>&1 | tail -n 1 | cut -c1-150
done
