#!/bin/bash
# usage: sweep_seeds.sh "<name>:<pid>[,<pid>...]" ...
cd /verif
for spec in "$@"; do
  name=${spec%%:*}; pids=${spec#*:}
  /venv/bin/python tools/try_seed.py $name ${pids//,/ } 2>&1 | tail -n 3
done
git -C /repo status --short
