"""Prints the prompt given to an independent sub-agent that seeds a property-breaking change."""
import json, sys
pid = sys.argv[1]
wt = sys.argv[2]
variant = sys.argv[3] if len(sys.argv) > 3 else ""
if variant == "@wave6":
    variant = "NOTE: " + json.load(open('/verif/tools/wave6_notes.json'))[pid]
if variant == "@wave5":
    variant = "NOTE: " + json.load(open('/verif/tools/wave5_notes.json'))[pid]
if variant == "@wave4":
    variant = "NOTE: " + json.load(open('/verif/tools/wave4_notes.json'))[pid]
if variant == "@wave3":
    variant = "NOTE: " + json.load(open('/verif/tools/wave3_notes.json'))[pid]
if variant == "@wave2":
    variant = "NOTE: " + json.load(open('/verif/tools/wave2_notes.json'))[pid] + " Prefer a change that needs TWO conditions at once to manifest (so that a test of either condition alone passes)."
for l in open('/verif/properties.jsonl'):
    d = json.loads(l)
    if d['id'] == pid:
        break
print(f"""You are helping to evaluate a verification effort for the open-source project hit9/bitproto (a Python schema compiler with ply lexer/parser, AST, C/Go/Python code generators for a bit-level fixed-size serialization format, plus runtime libraries lib/c, lib/go, lib/py).

You have your own scratch git worktree of the repository at {wt} (work ONLY there; never touch /repo or /verif, and do not read anything under /verif).

Here is a semantic property of bitproto that holds (or is intended to hold) on the current tree:

  id: {d['id']}
  title: {d['title']}
  statement: {d['statement']}
  quantifier: {d['quantifier']['text']}
  relevant files: {', '.join(d['anchors']['files'])}

YOUR TASK: make ONE small, realistic change (a plausible bug a maintainer could introduce: off-by-one, wrong mask/shift, swapped order, stale/shared state, missing case, wrong condition ...) to the source of hit9/bitproto in {wt} that BREAKS this property, while:
  1. everything still "compiles" (Python imports fine; lib/c/bitproto.c still compiles with gcc if you touch it);
  2. the repository's existing test-suite still passes exactly as before. Run it like this (from the worktree):
       cd {wt} && PYTHONPATH={wt}/compiler /venv/bin/python -m pytest -q -p no:cacheprovider --timeout=900 --continue-on-collection-errors 2>&1 | tail -5
     Baseline on the unchanged tree is: 62 passed, 11 failed (the 11 tests under tests/test_encoding other than test_encoding_issue52 ALWAYS fail in this sandbox because there is no Go toolchain / bitprotolib is not installed; that is expected). After your change it must still be 62 passed / 11 failed with the same failing tests.
  3. the breakage needs something SPECIFIC to manifest - a particular input shape, width, bit offset, nesting, multi-step sequence of operations, unusual-but-valid schema, or two cooperating sites that each look fine alone - NOT something that ordinary use (e.g. compiling and running the repository's example/ schemas with simple values) would expose at once.{(' ' + variant) if variant else ''}

Important practical facts:
  - /venv/bin/python has ply and is the interpreter to use. `bitproto` in /venv site-packages is a COPY, so always put your worktree first: PYTHONPATH={wt}/compiler:{wt}/lib/py
  - compile a schema:  PYTHONPATH={wt}/compiler /venv/bin/python -m bitproto._main py|c|go file.bitproto [outdir] [-O] [-F names] [--endian little|big|both] [-q] [-c]
  - the C runtime is {wt}/lib/c/bitproto.c/.h (gcc and clang are installed; there is NO Go toolchain).
  - no network access; do not install anything.
  - do not commit; leave the change as an uncommitted modification in the worktree.

DELIVERABLES (write them under {wt}/_seed/):
  - {wt}/_seed/patch.diff : output of `git -C {wt} diff -- . ':(exclude)_seed'` (the change to bitproto only)
  - {wt}/_seed/demo.py (or demo.sh): a small self-contained demonstration program that takes the path of a bitproto source tree as its first argument (sys.argv[1]), uses the compiler/runtime from THAT tree, exits 0 when the property holds for the demonstrated case and exits 1 (printing what went wrong) when it does not. It must FAIL (exit 1) on your modified worktree and PASS (exit 0) on the unchanged tree /repo. Verify both yourself:  /venv/bin/python {wt}/_seed/demo.py {wt} ; /venv/bin/python {wt}/_seed/demo.py /repo
  - {wt}/_seed/meta.json : {{"property": "{pid}", "summary": "<one sentence: what was changed>", "needs": "<what specific input/sequence/configuration is needed for the breakage to manifest>", "files_changed": [...], "tests_after_change": "<the pytest summary line you observed>"}}

Finish by replying with: the diff, the pytest summary line after the change, the demo results on both trees, and one sentence on why ordinary use would not notice it. Keep the change minimal (a few lines).""")
