"""Apply a stored seeded change to /repo, run the given checks (quick), undo the change.
usage: try_seed.py <name> <pid> [<pid> ...]     (records the outcome in seeded/<name>/meta.json)"""
import json, os, subprocess, sys, time
name, pids = sys.argv[1], sys.argv[2:]
REPO = os.environ.get("SEED_REPO", "/repo")  # a scratch worktree of /repo may be used instead (checks are bound to it with BPMC_REPO)
dst = os.path.join("/verif/seeded", name)
patch = os.path.join(dst, "patch.diff")
assert subprocess.run(["git", "-C", REPO, "status", "--porcelain"], capture_output=True, text=True).stdout.strip() == "", REPO + " not clean"
subprocess.run(["git", "-C", REPO, "apply", patch], check=True)
out = {}
try:
    for pid in pids:
        t = time.time()
        r = subprocess.run(["/venv/bin/python", "-m", "bpmc.run", pid, "--tier", "quick"], cwd=os.environ.get("VERIF_DIR", "/verif"), capture_output=True, text=True,
                           env=dict(os.environ, VERIF_SEED=os.environ.get("VERIF_SEED", "0"), BPMC_REPO=REPO))
        viol = [l for l in r.stdout.splitlines() if l.startswith("VIOLATION")]
        notes = [l for l in r.stdout.splitlines() if l.startswith("  #")]
        out[pid + os.environ.get('SEED_LABEL', '')] = dict(exit=r.returncode, violations=len(viol), first=(notes[0][:300] if notes else ""), wall=round(time.time() - t, 1))
        print(name, pid, "exit", r.returncode, "violations", len(viol), (" | ".join(n[:160] for n in notes[:3])))
finally:
    subprocess.run(["git", "-C", REPO, "checkout", "--", "."], check=True)
    subprocess.run(["git", "-C", REPO, "clean", "-fdq", "--", "compiler", "lib"], check=False)
mp = os.path.join(dst, "meta.json")
meta = json.load(open(mp))
meta.setdefault("detection", {}).update(out)
json.dump(meta, open(mp, "w"), indent=1)
# restore evidence of the unchanged tree is the caller's job (re-run the check)
