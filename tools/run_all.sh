#!/bin/bash
# usage: run_all.sh <tier> [ids...]   -- runs checks sequentially, prints one summary line each
cd /verif
tier=${1:-quick}; shift
ids=${@:-C01 C02 C03 C04 C05 C06 C07 C08 C09 C10 C11 C12 C13 C14 C15 C16 C17 C18 C19 C20}
for p in $ids; do
  /venv/bin/python -m bpmc.run $p --tier $tier > /dev/shm/run_$p.log 2>&1
  echo "$p exit=$? $(grep -c '^VIOLATION' /dev/shm/run_$p.log) violations; $(grep -c '^KNOWN-FINDING' /dev/shm/run_$p.log) known; $(tail -1 /dev/shm/run_$p.log | cut -c1-160)"
done
