#!/bin/bash
# usage: [PER_CHECK_TIMEOUT=secs] run_all.sh <tier> [ids...]   -- runs checks sequentially from this checkout, one summary line each
cd "$(dirname "$0")/.."
tier=${1:-quick}; shift
ids=${@:-C01 C02 C03 C04 C05 C06 C07 C08 C09 C10 C11 C12 C13 C14 C15 C16 C17 C18 C19 C20}
mkdir -p logs
for p in $ids; do
  /usr/bin/time -f "%e s wall, %M KB maxrss" timeout ${PER_CHECK_TIMEOUT:-0} /venv/bin/python -m bpmc.run $p --tier $tier > logs/run_${tier}_$p.log 2>&1
  echo "$p exit=$? $(grep -c '^VIOLATION' logs/run_${tier}_$p.log) violations; $(grep -c '^KNOWN-FINDING' logs/run_${tier}_$p.log) known; $(grep "^$p tier" logs/run_${tier}_$p.log | cut -c1-170) | $(tail -1 logs/run_${tier}_$p.log)"
done
