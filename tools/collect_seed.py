"""Confirm a sub-agent's seeded change independently and store it under /verif/seeded/<name>/.

usage: collect_seed.py <name> <agent worktree>
Confirms, in a *fresh* scratch worktree of /repo's HEAD: the patch applies; the pinned suite still has the
baseline result (62 passed / 11 failed); the demonstration fails with the change and passes without it.
"""
import json, os, re, shutil, subprocess, sys

name, wt = sys.argv[1], sys.argv[2]
seed = os.path.join(wt, "_seed")
dst = os.path.join("/verif/seeded", name)
os.makedirs(dst, exist_ok=True)
for f in os.listdir(seed):
    if os.path.isfile(os.path.join(seed, f)) and os.path.getsize(os.path.join(seed, f)) < 200000:
        shutil.copy(os.path.join(seed, f), dst)
patch = os.path.join(dst, "patch.diff")
demo = next((os.path.join(dst, d) for d in ("demo.py", "demo.sh") if os.path.exists(os.path.join(dst, d))), None)
scratch = "/tmp/wtv_" + name
subprocess.run(["git", "-C", "/repo", "worktree", "remove", "--force", scratch], capture_output=True)
subprocess.run(["git", "-C", "/repo", "worktree", "add", "-q", "--detach", scratch, "HEAD"], check=True)
res = {}
try:
    r = subprocess.run(["git", "-C", scratch, "apply", patch], capture_output=True, text=True)
    res["patch_applies"] = r.returncode == 0
    if r.returncode:
        res["apply_error"] = r.stderr[-500:]
    r = subprocess.run("cd %s && PYTHONPATH=%s/compiler /venv/bin/python -m pytest -q -p no:cacheprovider --timeout=900 --continue-on-collection-errors 2>&1 | tail -1" % (scratch, scratch),
                       shell=True, capture_output=True, text=True)
    res["pytest_summary"] = r.stdout.strip()
    res["tests_ok"] = bool(re.search(r"11 failed, 62 passed", r.stdout))
    runner = ["/venv/bin/python", demo] if demo.endswith(".py") else ["bash", demo]
    r1 = subprocess.run(runner + [scratch], capture_output=True, text=True, timeout=600)
    r0 = subprocess.run(runner + ["/repo"], capture_output=True, text=True, timeout=600)
    res["demo_with_change_exit"] = r1.returncode
    res["demo_without_change_exit"] = r0.returncode
    res["demo_with_change_tail"] = (r1.stdout + r1.stderr)[-600:]
finally:
    subprocess.run(["git", "-C", "/repo", "worktree", "remove", "--force", scratch], capture_output=True)
res["confirmed"] = bool(res.get("patch_applies") and res.get("tests_ok") and res.get("demo_with_change_exit") == 1 and res.get("demo_without_change_exit") == 0)
mp = os.path.join(dst, "meta.json")
try:
    meta = json.load(open(mp))
except Exception:
    meta = {}
meta["confirmation"] = res
meta["confirmed_against_repo_head"] = subprocess.run(["git", "-C", "/repo", "rev-parse", "HEAD"], capture_output=True, text=True).stdout.strip()
json.dump(meta, open(mp, "w"), indent=1)
print(name, json.dumps({k: v for k, v in res.items() if k != "demo_with_change_tail"}))
